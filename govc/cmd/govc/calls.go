package main

import (
	"sort"
	"fmt"
	"go/ast"
	"go/token"
	"go/types"
	"math/big"
	"strings"

	"golang.org/x/tools/go/ssa"
)

type policy int

const (
	polExternal policy = iota
	polInline
	polContract
	polPure
)

const maxInlineDepth = 6
const maxInlineInstrs = 80

// pure standard-library functions: result havocked (or given exact
// semantics in pureSemantics), heap untouched.
var purePkgs = map[string]bool{
	"math": true, "strings": true, "strconv": true, "unicode": true, "unicode/utf8": true,
	"math/bits": true, "errors": true, "bytes": true, "sort": false, "unsafe": true,
}

func isPureExternal(fn *ssa.Function) bool {
	if fn.Pkg == nil {
		if fn.Object() != nil && fn.Object().Pkg() != nil {
			return purePkgs[fn.Object().Pkg().Path()]
		}
		return false
	}
	p := fn.Pkg.Pkg.Path()
	if purePkgs[p] {
		// methods with pointer receivers (strings.Builder etc.) are not pure
		if fn.Signature.Recv() != nil {
			if _, ok := fn.Signature.Recv().Type().(*types.Pointer); ok {
				return false
			}
		}
		return true
	}
	if p == "fmt" {
		switch fn.Name() {
		case "Sprintf", "Errorf", "Sprint", "Sprintln":
			return true
		}
	}
	if p == "time" && (fn.Name() == "Now" || fn.Name() == "UnixNano" || fn.Name() == "Since") {
		return true
	}
	return false
}

func (c *Ctx) inModule(fn *ssa.Function) bool {
	return fn.Pkg != nil && strings.HasPrefix(fn.Pkg.Pkg.Path(), c.eng.modPath)
}

func hasLoop(fn *ssa.Function) bool {
	for _, b := range fn.Blocks {
		for _, s := range b.Succs {
			if s.Dominates(b) {
				return true
			}
		}
	}
	return false
}

func instrCount(fn *ssa.Function) int {
	n := 0
	for _, b := range fn.Blocks {
		for _, in := range b.Instrs {
			if _, ok := in.(*ssa.DebugRef); !ok {
				n++
			}
		}
	}
	return n
}

func (c *Ctx) callPolicy(callee *ssa.Function, ct *Contract, depth int) policy {
	if ct != nil && ct.EffOnly {
		ct = nil
	}
	if ct != nil {
		if ct.External {
			return polExternal
		}
		if ct.Inline {
			return polInline
		}
		return polContract
	}
	if isPureExternal(callee) {
		return polPure
	}
	if !c.inModule(callee) || len(callee.Blocks) == 0 {
		return polExternal
	}
	if depth >= maxInlineDepth || !c.eng.autoInlinable(callee, 0) {
		return polExternal
	}
	return polInline
}

// autoInlinable: small, loop-free leaf accessor whose static callees are
// themselves auto-inlinable, pure externals, builtins or under contract.
func (e *Engine) autoInlinable(fn *ssa.Function, depth int) bool {
	e.mu.Lock()
	if e.inlinable == nil {
		e.inlinable = map[*ssa.Function]bool{}
	}
	if v, ok := e.inlinable[fn]; ok {
		e.mu.Unlock()
		return v
	}
	e.mu.Unlock()
	res := e.autoInlinable0(fn, depth)
	// a negative answer obtained below the top level may only reflect the depth
	// limit: cache it only when it was computed with the full budget, so that the
	// decision does not depend on which function asked first
	if res || depth == 0 {
		e.mu.Lock()
		e.inlinable[fn] = res
		e.mu.Unlock()
	}
	return res
}

func (e *Engine) autoInlinable0(fn *ssa.Function, depth int) bool {
	if depth > 3 || len(fn.Blocks) == 0 || hasLoop(fn) || instrCount(fn) > maxInlineInstrs || fn.Recover != nil {
		return false
	}
	if fn.Pkg == nil || !strings.HasPrefix(fn.Pkg.Pkg.Path(), e.modPath) {
		return false
	}
	for _, b := range fn.Blocks {
		for _, in := range b.Instrs {
			switch x := in.(type) {
			case *ssa.Go, *ssa.Defer, *ssa.Select, *ssa.Send, *ssa.MakeClosure, *ssa.MakeMap, *ssa.MapUpdate, *ssa.Range:
				return false
			case *ssa.Call:
				if _, ok := x.Call.Value.(*ssa.Builtin); ok {
					continue
				}
				callee := x.Call.StaticCallee()
				if callee == nil {
					// a method of an interface-typed parameter: the caller may know the
					// dynamic type (resolved at the call; unknown calls havoc the heap)
					if _, isParam := x.Call.Value.(*ssa.Parameter); isParam && x.Call.IsInvoke() {
						continue
					}
					return false
				}
				if _, ok := e.contractMap(fnKey(callee), callee); ok {
					continue
				}
				if isPureExternal(callee) {
					continue
				}
				if callee == fn || !e.autoInlinable(callee, depth+1) {
					return false
				}
			}
		}
	}
	return true
}

func (c *Ctx) execCall(fr *Frame, st *State, call *ssa.CallCommon, site ssa.Value, pos token.Pos) (Val, bool) {
	var rt types.Type
	if site != nil {
		rt = site.Type()
	} else {
		rt = call.Signature().Results()
	}
	var args []Val
	for _, a := range call.Args {
		args = append(args, c.val(fr, st, a))
	}
	if b, ok := call.Value.(*ssa.Builtin); ok {
		return c.execBuiltin(fr, st, b, call, args, rt, pos)
	}
	var callee *ssa.Function
	devirt := false
	if call.IsInvoke() {
		recv := c.val(fr, st, call.Value)
		// the dynamic type is known on this path (the interface value was built
		// from a concrete value in this function or an inlined caller): the
		// method is resolved statically when it is a small leaf or pure
		if recv.Dyn != nil && c.eng.invokeContract(call) == nil {
			if m := c.eng.prog.LookupMethod(recv.Dyn.T, call.Method.Pkg(), call.Method.Name()); m != nil && len(m.Blocks) > 0 {
				mct := c.eng.contractOf(m)
				if pol := c.callPolicy(m, mct, fr.depth); pol == polInline || pol == polPure {
					callee, devirt = m, true
					args = append([]Val{recv.Dyn.V}, args...)
				}
			}
		}
	}
	if call.IsInvoke() && !devirt {
		recv := c.val(fr, st, call.Value)
		if ct := c.eng.invokeContract(call); ct != nil {
			all := append([]Val{recv}, args...)
			return c.applyContract(fr, st, ct, nil, call, all, rt, pos)
		}
		name := "invoke " + call.Method.FullName()
		c.externals[name] = true
		c.havocAll(st, true)
		return c.havocVal(rt, "ext"), true
	}
	if !devirt {
		callee = call.StaticCallee()
	}
	var clo []Val
	if callee == nil {
		fv := c.val(fr, st, call.Value)
		if fv.Fn != nil {
			callee = fv.Fn
			clo = fv.Clo
		}
	} else if mc, ok := call.Value.(*ssa.MakeClosure); ok {
		fv := c.val(fr, st, mc)
		clo = fv.Clo
	}
	if callee == nil {
		if ct := c.eng.funcTypeContract(call); ct != nil {
			fv := c.val(fr, st, call.Value)
			all := append([]Val{fv}, args...)
			return c.applyContract(fr, st, ct, nil, call, all, rt, pos)
		}
		c.externals["dynamic call "+call.Value.Type().String()] = true
		c.havocAll(st, true)
		return c.havocVal(rt, "dyn"), true
	}
	key := fnKey(callee)
	ct := c.eng.contractOf(callee)
	switch key {
	case "strings.Repeat", "bytes.Repeat":
		if len(args) == 2 && args[0].S != "" && args[1].S != "" && site != nil {
			ln := fmt.Sprintf("(str_len %s)", args[0].S)
			if key == "bytes.Repeat" {
				ln = fmt.Sprintf("(s_len %s)", args[0].S)
			}
			cnt := c.toIdx(args[1].S, args[1].T)
			var prod string
			if c.mode == BV {
				prod = fmt.Sprintf("(bvmul %s %s)", ln, cnt)
			} else {
				prod = fmt.Sprintf("(* %s %s)", ln, cnt)
			}
			c.allocOblige(fr, st, siteInstr(site), prod, 1, key)
		}
	case "strings.ToLower", "strings.ToUpper", "bytes.ToLower", "bytes.ToUpper":
		if len(args) == 1 && args[0].S != "" && site != nil {
			ln := fmt.Sprintf("(str_len %s)", args[0].S)
			if strings.HasPrefix(key, "bytes.") {
				ln = fmt.Sprintf("(s_len %s)", args[0].S)
			}
			c.allocOblige(fr, st, siteInstr(site), ln, 1, key)
		}
	case "strings.(*Builder).Grow", "bytes.(*Buffer).Grow":
		if len(args) == 2 && args[1].S != "" && site != nil {
			c.allocOblige(fr, st, siteInstr(site), c.toIdx(args[1].S, args[1].T), 1, key)
		}
	}
	// call-site assertions declared by the caller's contract
	c.callSiteAsserts(fr, st, callee, args, "assert_before_call", pos, siteInstr(site))
	var res Val
	cont := true
	switch c.callPolicy(callee, ct, fr.depth) {
	case polInline:
		if sem, ok := c.builtinSemantics(fr, st, callee, args, rt); ok {
			res = sem
			break
		}
		c.inlined[key] = true
		sub := c.newFrame(callee, fr.depth+1)
		sub.contract = nil
		if ct != nil && ct.Inline {
			sub.contract = ct
		}
		savedRTE := c.rte
		est := st.clone()
		rst, rvals := c.execBody(sub, est, args, clo)
		c.rte = savedRTE
		fr.panics = append(fr.panics, sub.panics...)
		*st = *rst
		res = tupleOf(rt, rvals)
		if rst.reach == "false" {
			cont = false
		}
	case polContract:
		res, cont = c.applyContract(fr, st, ct, callee, call, args, rt, pos)
	case polPure:
		if sem, ok := c.builtinSemantics(fr, st, callee, args, rt); ok {
			res = sem
		} else {
			c.trusted["pure external (result unconstrained, no panic, heap untouched): "+key] = true
			res = c.pureResult(callee, args, rt)
		}
	default:
		if sem, ok := c.builtinSemantics(fr, st, callee, args, rt); ok {
			res = sem
			break
		}
		// methods of bytes.Buffer / strings.Builder only change their receiver (the
		// buffer owns its backing array)
		if isBufferMethod(callee) && len(args) > 0 && args[0].P != nil {
			hv := c.havocVal(args[0].P.ET, "buf")
			c.store(st, args[0].P, hv.S)
			c.trusted["bytes.Buffer / strings.Builder methods: only the receiver changes, no panic (sizes are not modelled)"] = true
			res = c.havocVal(rt, "ext")
			break
		}
		c.externals[key] = true
		c.havocAll(st, true)
		res = c.havocVal(rt, "ext")
	}
	c.callSiteAsserts(fr, st, callee, args, "assert_after_call", pos, siteInstr(site))
	c.captureResults(fr, st, callee, res)
	return res, cont
}

// captureResults implements `capture CALLEE as NAME`: a fresh constant per result
// that equals the result on the paths where the call is executed.
func (c *Ctx) captureResults(fr *Frame, st *State, callee *ssa.Function, res Val) {
	if fr.contract == nil || !fr.top || callee == nil {
		return
	}
	for _, cl := range fr.contract.byKind("capture") {
		if cl.Name != callee.Name() && cl.Name != fnKey(callee) && !(callee.Pkg != nil && cl.Name == callee.RelString(callee.Pkg.Pkg)) && !c.eng.wasCalled(callee, cl.Name) {
			continue
		}
		elems := res.Elems
		if len(elems) == 0 {
			elems = []Val{res}
		}
		if c.captured == nil {
			c.captured = map[string]Val{}
		}
		for i, e := range elems {
			if e.S == "" || e.T == nil {
				continue
			}
			k := c.decl("capt_"+cl.Text, c.sorts.sortOf(e.T))
			c.assume(st.reach, fmt.Sprintf("(= %s %s)", k, e.S))
			v := e
			v.S = k
			c.captured[fmt.Sprintf("%s%d", cl.Text, i)] = v
			if i == 0 {
				c.captured[cl.Text] = v
			}
		}
	}
}

func tupleOf(rt types.Type, vals []Val) Val {
	if tup, ok := rt.(*types.Tuple); ok {
		if tup.Len() == 0 {
			return Val{T: rt}
		}
		return Val{T: rt, Elems: vals}
	}
	if len(vals) == 1 {
		return vals[0]
	}
	return Val{T: rt, Elems: vals}
}

// pureResult: deterministic uninterpreted function of scalar arguments where
// possible, else fresh.
func (c *Ctx) pureResult(callee *ssa.Function, args []Val, rt types.Type) Val {
	if tup, ok := rt.(*types.Tuple); ok && tup.Len() != 1 {
		return c.havocVal(rt, "pure")
	}
	t := rt
	if tup, ok := rt.(*types.Tuple); ok {
		t = tup.At(0).Type()
	}
	var sorts, terms []string
	for _, a := range args {
		if a.S == "" {
			return c.havocVal(rt, "pure")
		}
		sorts = append(sorts, c.sorts.sortOf(a.T))
		terms = append(terms, a.S)
	}
	if len(args) == 0 || isIfaceType(t) {
		v := c.havocVal(t, "pure")
		if isIfaceType(t) && (callee.Name() == "New" || callee.Name() == "Errorf") {
			c.assume("true", fmt.Sprintf("(not ((_ is if_nil) %s))", v.S))
		}
		return v
	}
	uf := "pure_" + sanitize(fnKey(callee))
	c.declUF(uf, sorts, c.sorts.sortOf(t))
	v := c.mkVal(t, fmt.Sprintf("(%s %s)", uf, strings.Join(terms, " ")))
	n := c.def("pr", c.sorts.sortOf(t), v.S)
	c.assumeRange("true", t, n, 0)
	return c.mkVal(t, n)
}

// builtinSemantics gives exact models for a few leaf functions.
func (c *Ctx) builtinSemantics(fr *Frame, st *State, callee *ssa.Function, args []Val, rt types.Type) (Val, bool) {
	key := fnKey(callee)
	f64 := types.Typ[types.Float64]
	un := func(op string) (Val, bool) {
		return c.mkVal(f64, c.def("m", "Float64", fmt.Sprintf("(%s %s)", op, args[0].S))), true
	}
	switch key {
	case "unicode/utf8.DecodeRune", "unicode/utf8.DecodeRuneInString", "unicode/utf8.DecodeLastRune":
		if len(args) == 1 && args[0].S != "" && c.mode == INT {
			tup, ok := rt.(*types.Tuple)
			if ok && tup.Len() == 2 {
				r := c.havocVal(tup.At(0).Type(), "rune")
				w := c.havocVal(tup.At(1).Type(), "width")
				ln := fmt.Sprintf("(s_len %s)", args[0].S)
				if strings.HasSuffix(key, "InString") {
					ln = fmt.Sprintf("(str_len %s)", args[0].S)
				}
				c.assume("true", fmt.Sprintf("(and (<= 0 %s) (<= %s 1114111))", r.S, r.S))
				c.assume("true", fmt.Sprintf("(ite (= %s 0) (and (= %s 0) (= %s 65533)) (and (<= 1 %s) (<= %s 4) (<= %s %s)))", ln, w.S, r.S, w.S, w.S, w.S, ln))
				c.trusted["utf8.DecodeRune: 0 <= rune <= 0x10FFFF; width 0 and RuneError for empty input, otherwise 1 <= width <= min(4, len)"] = true
				return Val{T: rt, Elems: []Val{r, w}}, true
			}
		}
	case "math.Floor":
		return un("fp.roundToIntegral RTN")
	case "math.Ceil":
		return un("fp.roundToIntegral RTP")
	case "math.Trunc":
		return un("fp.roundToIntegral RTZ")
	case "math.Abs":
		return un("fp.abs")
	case "math.Sqrt":
		return un("fp.sqrt RNE")
	case "math.IsNaN":
		return Val{T: types.Typ[types.Bool], S: fmt.Sprintf("(fp.isNaN %s)", args[0].S)}, true
	case "math.IsInf":
		if c.mode == BV {
			s := args[1].S
			f := args[0].S
			return Val{T: types.Typ[types.Bool], S: fmt.Sprintf("(and (fp.isInfinite %s) (or (= %s #x0000000000000000) (and (bvsgt %s #x0000000000000000) (fp.isPositive %s)) (and (bvslt %s #x0000000000000000) (fp.isNegative %s))))", f, s, s, f, s, f)}, true
		}
	case "math.Inf":
		if c.mode == BV {
			return c.mkVal(f64, fmt.Sprintf("(ite (bvsge %s #x0000000000000000) (_ +oo 11 53) (_ -oo 11 53))", args[0].S)), true
		}
	case "math.NaN":
		return c.mkVal(f64, "(_ NaN 11 53)"), true
	case "math.Float64bits":
		if c.mode == BV {
			c.note("math.Float64bits modelled by f64bits (axiom to_fp(f64bits f) = f)")
			return c.mkVal(types.Typ[types.Uint64], c.f64bits(args[0].S)), true
		}
	case "math.Float64frombits":
		if c.mode == BV {
			return c.mkVal(f64, fmt.Sprintf("((_ to_fp 11 53) %s)", args[0].S)), true
		}
	case "sync.(*Mutex).Lock", "sync.(*Mutex).Unlock", "sync.(*RWMutex).Lock", "sync.(*RWMutex).Unlock", "sync.(*RWMutex).RLock", "sync.(*RWMutex).RUnlock":
		c.trusted["sync.Mutex Lock/Unlock: no effect on the sequential state (blocking and memory ordering not modelled)"] = true
		return Val{T: rt}, true
	case "strconv.ParseUint", "strconv.ParseInt":
		// the documented range of the result: err == nil implies that the value fits in
		// bitSize bits (0 means 64); nothing is said about which value it is
		if len(args) == 3 && args[2].S != "" && c.mode == INT {
			tup, ok := rt.(*types.Tuple)
			if ok && tup.Len() == 2 {
				n := c.havocVal(tup.At(0).Type(), "parsed")
				e := c.havocVal(tup.At(1).Type(), "perr")
				bs := args[2].S
				if key == "strconv.ParseUint" {
					for k := 1; k < 64; k++ {
						c.assume("true", fmt.Sprintf("(=> (and (= %s if_nil) (= %s %d)) (< %s %s))", e.S, bs, k, n.S, new(big.Int).Lsh(big.NewInt(1), uint(k)).String()))
					}
				} else {
					for k := 1; k < 64; k++ {
						h := new(big.Int).Lsh(big.NewInt(1), uint(k-1))
						c.assume("true", fmt.Sprintf("(=> (and (= %s if_nil) (= %s %d)) (and (<= (- %s) %s) (< %s %s)))", e.S, bs, k, h.String(), n.S, n.S, h.String()))
					}
				}
				c.trusted["strconv.ParseUint/ParseInt: a nil error implies that the value fits in bitSize bits (documented); the value itself is unconstrained"] = true
				return Val{T: rt, Elems: []Val{n, e}}, true
			}
		}
	case "bytes.IndexByte":
		if len(args) == 2 && args[0].S != "" && args[1].S != "" && c.mode == INT {
			// a deterministic function of the slice contents; characterised by first-occurrence axioms
			elem := types.Typ[types.Uint8]
			key := c.arrKeyFor(elem)
			c.ensureHeapSort(key, elem)
			h := c.heapSym(st, key)
			c.declUF("bytes_indexbyte", []string{c.heapSorts[key], "Slice", "Int"}, "Int")
			r := c.def("ixb", "Int", fmt.Sprintf("(bytes_indexbyte %s %s %s)", h, args[0].S, args[1].S))
			at := func(j string) string {
				return fmt.Sprintf("(select (select %s (s_arr %s)) (+ (s_off %s) %s))", h, args[0].S, args[0].S, j)
			}
			c.assume("true", fmt.Sprintf("(and (<= (- 1) %s) (< %s (s_len %s)))", r, r, args[0].S))
			c.assume("true", fmt.Sprintf("(=> (>= %s 0) (= %s %s))", r, at(r), args[1].S))
			c.assume("true", fmt.Sprintf("(forall ((j!ib Int)) (=> (and (<= 0 j!ib) (< j!ib (ite (>= %s 0) %s (s_len %s)))) (not (= %s %s))))", r, r, args[0].S, at("j!ib"), args[1].S))
			c.trusted["bytes.IndexByte: index of the first occurrence, or -1 (axiomatised)"] = true
			return c.mkVal(types.Typ[types.Int], r), true
		}
	case "strings.Repeat":
		if len(args) == 2 && args[0].S != "" && args[1].S != "" {
			// the result has len(s)*count bytes (count >= 0, otherwise strings.Repeat panics)
			v := c.havocVal(types.Typ[types.String], "repeat")
			cnt := c.toIdx(args[1].S, args[1].T)
			if c.mode == BV {
				c.assume(st.reach, fmt.Sprintf("(= (str_len %s) (bvmul (str_len %s) %s))", v.S, args[0].S, cnt))
			} else {
				c.assume(st.reach, fmt.Sprintf("(= (str_len %s) (* (str_len %s) %s))", v.S, args[0].S, cnt))
			}
			c.trusted["strings.Repeat: result length is len(s)*count (content abstract)"] = true
			return v, true
		}
	case "math.Mod":
		c.declUF("math_mod", []string{"Float64", "Float64"}, "Float64")
		c.trusted["math.Mod: uninterpreted; assumed |r|<|y| and sign(r)=sign(x) or r=±0, NaN iff x inf/NaN or y 0/NaN"] = true
		r := c.def("fmod", "Float64", fmt.Sprintf("(math_mod %s %s)", args[0].S, args[1].S))
		x, y := args[0].S, args[1].S
		nan := fmt.Sprintf("(or (fp.isNaN %s) (fp.isNaN %s) (fp.isInfinite %s) (fp.isZero %s))", x, y, x, y)
		c.assume("true", fmt.Sprintf("(= (fp.isNaN %s) %s)", r, nan))
		c.assume("true", fmt.Sprintf("(=> (not %s) (and (=> (fp.isInfinite %s) (= %s %s)) (=> (not (fp.isInfinite %s)) (fp.lt (fp.abs %s) (fp.abs %s))) (= (fp.isNegative %s) (fp.isNegative %s))))", nan, y, r, x, y, r, y, r, x))
		return c.mkVal(f64, r), true
	case "math.Pow":
		c.declUF("math_pow", []string{"Float64", "Float64"}, "Float64")
		c.trusted["math.Pow: uninterpreted deterministic function"] = true
		return c.mkVal(f64, fmt.Sprintf("(math_pow %s %s)", args[0].S, args[1].S)), true
	}
	// golua leaf functions with unsafe internals
	mod := c.eng.modPath
	switch key {
	case mod + "/runtime.FloatValue":
		if c.mode == BV {
			vt := rt
			info := c.sorts.info(vt)
			c.sorts.ifaceCtor(types.Typ[types.Float64])
			c.trusted["runtime.FloatValue: unsafe bit cast modelled as Value{f64bits(f), dummyFloat64}"] = true
			return c.mkVal(vt, fmt.Sprintf("(%s %s (if_float64 %s))", info.ctor, c.f64bits(args[0].S), fpLit(0, true))), true
		}
		{
			// integer mode: the bit pattern is an uninterpreted integer with asfloat_of as its inverse
			vt := rt
			info := c.sorts.info(vt)
			c.sorts.ifaceCtor(types.Typ[types.Float64])
			c.declUF("f64bits_int", []string{"Float64"}, "Int")
			c.declUF("asfloat_of", []string{"Int"}, "Float64")
			c.trusted["runtime.FloatValue / AsFloat in integer mode: bit pattern abstracted by uninterpreted f64bits_int with inverse asfloat_of"] = true
			b := c.def("fbits", "Int", fmt.Sprintf("(f64bits_int %s)", args[0].S))
			c.assume("true", fmt.Sprintf("(and (<= 0 %s) (<= %s 18446744073709551615) (= (asfloat_of %s) %s))", b, b, b, args[0].S))
			return c.mkVal(vt, fmt.Sprintf("(%s %s (if_float64 %s))", info.ctor, b, fpLit(0, true))), true
		}
	case mod + "/runtime.(Value).AsFloat":
		if c.mode == BV {
			info := c.sorts.info(args[0].T)
			c.trusted["runtime.(Value).AsFloat: unsafe bit cast modelled as to_fp(scalar)"] = true
			return c.mkVal(f64, fmt.Sprintf("((_ to_fp 11 53) (%s %s))", info.fields[0], args[0].S)), true
		}
		{
			info := c.sorts.info(args[0].T)
			c.declUF("asfloat_of", []string{"Int"}, "Float64")
			c.trusted["runtime.FloatValue / AsFloat in integer mode: bit pattern abstracted by uninterpreted f64bits_int with inverse asfloat_of"] = true
			return c.mkVal(f64, fmt.Sprintf("(asfloat_of (%s %s))", info.fields[0], args[0].S)), true
		}
	}
	return Val{}, false
}

func (c *Ctx) callSiteAsserts(fr *Frame, st *State, callee *ssa.Function, args []Val, kind string, pos token.Pos, at ssa.Instruction) {
	if fr.contract == nil || !fr.top {
		return
	}
	clauses := fr.contract.byKind(kind)
	if len(clauses) == 0 {
		return
	}
	// ordinal of this call site among the calls to that callee (execution order of the engine = source order)
	forms := []string{callee.Name(), fnKey(callee)}
	if callee.Pkg != nil {
		forms = append(forms, callee.RelString(callee.Pkg.Pkg))
		// the names the callee had in the reference tree
		if old := c.eng.oldFuncKey(callee.Pkg.Pkg.Path(), relKey(callee)); old != "" {
			forms = append(forms, old, callee.Pkg.Pkg.Path()+"."+old)
			if i := strings.LastIndex(old, "."); i >= 0 {
				forms = append(forms, old[i+1:])
			}
		}
	}
	ords := map[string]int{}
	for _, f := range forms {
		if _, dup := ords[f]; dup {
			continue
		}
		if n, ok := sourceOrdinal(c.eng, fr, at, f); ok {
			ords[f] = n // ordinal of the call site in source order
			continue
		}
		fr.callSeq["site:"+kind+f]++
		ords[f] = fr.callSeq["site:"+kind+f]
	}
	for _, cl := range clauses {
		cname, ord := cl.Name, 0
		if i := strings.LastIndex(cname, "#"); i > 0 {
			fmt.Sscanf(cname[i+1:], "%d", &ord)
			cname = cname[:i]
		}
		siteOrd, match := ords[cname]
		if !match {
			continue
		}
		if ord > 0 && ord != siteOrd {
			continue
		}
		env := c.specEnv(fr, st, fr.entry, nil)
		env.at = at
		for i, p := range callee.Params {
			if i < len(args) {
				env.vars["arg"+fmt.Sprint(i)] = args[i]
				env.vars["dollar_"+p.Name()] = args[i]
			}
		}
		for old, i := range c.eng.paramAliases(callee) {
			if _, taken := env.vars["dollar_"+old]; !taken && i < len(args) {
				env.vars["dollar_"+old] = args[i]
			}
		}
		name := fmt.Sprintf("%s:%s#%d/%d", kind, cname, siteOrd, cl.Idx)
		if cl.InScope {
			// attach only where every identifier of the assertion is in scope
			env.soft = true
			nobl := len(c.obls)
			g := c.specBool(env, cl.Expr)
			if len(env.errs) > 0 {
				c.obls = c.obls[:nobl]
				continue
			}
			cl.Attached++
			c.oblige(kind, name, st.reach, g, c.pos(pos)).Desc = cl.Text
			continue
		}
		g := c.specBool(env, cl.Expr)
		cl.Attached++
		c.oblige(kind, name, st.reach, g, c.pos(pos)).Desc = cl.Text
	}
}

// applyContract: assert requires, havoc modifies, assume ensures; handle exits.
func (c *Ctx) applyContract(fr *Frame, st *State, ct *Contract, callee *ssa.Function, call *ssa.CallCommon, args []Val, rt types.Type, pos token.Pos) (Val, bool) {
	name := ct.Key
	if ct.Trusted {
		c.trusted["trusted contract: "+ct.PkgPath+"."+ct.Key] = true
	}
	fr.callSeq["call:"+name]++
	seq := fr.callSeq["call:"+name]
	pre := st.clone()
	env := c.calleeEnv(ct, callee, call, args, pre, pre)
	for _, cl := range ct.byKind("requires") {
		g := c.specBool(env, cl.Expr)
		nm := fmt.Sprintf("call:%s#%d/requires#%d", name, seq, cl.Idx)
		if !fr.top {
			nm = fmt.Sprintf("call:%s@%s#%d/requires#%d", name, fr.fn.Name(), seq, cl.Idx)
		}
		c.oblige("requires", nm, st.reach, g, c.pos(pos)).Desc = cl.Text
		c.assume(st.reach, g)
	}
	// exits
	exits := ct.byKind("exits")
	var exitConds []string
	for _, ex := range exits {
		var cond string
		if ex.When != nil {
			cond = c.specBool(env, ex.When)
		} else {
			cond = c.decl("mayexit", "Bool")
		}
		cond = c.def("exitc", "Bool", cond)
		exitConds = append(exitConds, cond)
		est := pre.clone()
		c.havocModifies(ct, env, est)
		est.reach = c.def("reach", "Bool", and(st.reach, cond))
		eenv := c.calleeEnv(ct, callee, call, args, est, pre)
		eenv.pos = true
		for _, cl := range ct.byKind("exits_ensures") {
			c.assume(est.reach, c.specBool(eenv, cl.Expr))
		}
		pv := c.havocVal(types.NewInterfaceType(nil, nil), "panicval")
		fr.panics = append(fr.panics, PanicExit{cond: est.reach, st: est, val: pv, site: fmt.Sprintf("call:%s#%d", name, seq), pos: pos, kind: ex.Name})
	}
	// normal path
	if len(exitConds) > 0 {
		st.reach = c.def("reach", "Bool", and(st.reach, not(or(exitConds...))))
	}
	c.havocModifies(ct, env, st)
	// the callee may allocate whatever it modifies (fresh(...) in its postcondition
	// refers to references between the two allocation marks)
	if !ct.Pure {
		na := c.decl("alloc", "Int")
		c.assume("true", fmt.Sprintf("(>= %s %s)", na, st.alloc))
		st.alloc = na
	}
	// ghost updates: exact where the contract declares them (`ghost g += e`), otherwise
	// the callee may have charged an unknown amount (counters only grow) unless it is
	// declared pure / `modifies nothing`
	explicit := map[string]bool{}
	for _, cl := range ct.byKind("ghost") {
		c.applyGhost(cl, env, st)
		if i := strings.Index(cl.Text, "+="); i > 0 {
			explicit[strings.TrimSpace(cl.Text[:i])] = true
		}
	}
	if !ct.Pure && !modifiesNothing(ct) {
		for _, g := range []string{"cpu", "mem", "sent"} { // engine-tracked counters; others change only through explicit `ghost g += e` clauses
			if cur, ok := st.ghost[g]; ok && !explicit[g] {
				ng := c.decl("ghost_"+g, "Int")
				c.assume("true", fmt.Sprintf("(>= %s %s)", ng, cur))
				st.ghost[g] = ng
			}
		}
	}
	// a custom counter that the callee's postconditions speak about but that it does
	// not update by an explicit `ghost g += e` has an unknown new value after the call
	// (constrained by those postconditions): leaving the caller's value in place would
	// contradict a postcondition such as ghost(g) == old(ghost(g)) + n and make
	// everything after the call vacuously true
	for _, cl := range ct.byKind("ensures") {
		for _, g := range ghostNamesIn(cl.Text) {
			if explicit[g] || g == "cpu" || g == "mem" || g == "sent" {
				continue
			}
			explicit[g] = true
			st.ghost[g] = c.decl("ghost_"+g, "Int")
		}
	}
	// results
	var res Val
	var rvals []Val
	if pv, ok := c.pureApp(ct, callee, args, rt, st); ok {
		res = pv
		rvals = []Val{pv}
	} else if tup, ok := rt.(*types.Tuple); ok {
		for i := 0; i < tup.Len(); i++ {
			rvals = append(rvals, c.havocVal(tup.At(i).Type(), "res"))
		}
		res = Val{T: rt, Elems: rvals}
	} else if rt != nil {
		res = c.havocVal(rt, "res")
		rvals = []Val{res}
	}
	penv := c.calleeEnv(ct, callee, call, args, st, pre)
	c.bindResults(penv, callee, call, rvals)
	penv.pos = true
	for _, cl := range ct.byKind("ensures") {
		c.assume(st.reach, c.specBool(penv, cl.Expr))
	}
	// vacuity guard: the assumed postcondition must leave the continuation reachable
	hasWhen := false
	for _, ex := range exits {
		if ex.When != nil {
			hasWhen = true // the callee may legitimately never return on this path
		}
	}
	if fr.top && len(ct.byKind("ensures")) > 0 && c.coverCalls && !hasWhen {
		o := c.oblige("cover", fmt.Sprintf("cover/after-call:%s#%d", name, seq), "true", not(st.reach), c.pos(pos))
		o.Cover = true
		o.Desc = "vacuity guard: the callee's assumed postcondition is satisfiable on a reachable path"
	}
	// loaded pointers < alloc
	for _, rv := range rvals {
		if rv.S != "" {
			c.assumeLoaded(st, rv.T, rv.S)
		}
	}
	return res, true
}

// pureApp: a function whose contract is marked `pure` denotes a
// deterministic function of its (scalar) arguments: calls in code and in
// specs are the same uninterpreted application, constrained by the ensures.
func (c *Ctx) pureApp(ct *Contract, callee *ssa.Function, args []Val, rt types.Type, st *State) (Val, bool) {
	if !ct.Pure || callee == nil || rt == nil {
		return Val{}, false
	}
	t := rt
	if tup, ok := rt.(*types.Tuple); ok {
		if tup.Len() != 1 {
			return Val{}, false
		}
		t = tup.At(0).Type()
	}
	var sorts, terms []string
	for _, a := range args {
		if a.S == "" {
			return Val{}, false
		}
		sorts = append(sorts, c.sorts.sortOf(a.T))
		terms = append(terms, a.S)
	}
	if len(terms) == 0 {
		return Val{}, false
	}
	// `reads heap(T)`: the result also depends on the current contents of those heaps
	for _, cl := range ct.byKind("reads") {
		for _, part := range splitTop(cl.Text, ',') {
			e, err := parseSpecExpr(part)
			if err != nil {
				continue
			}
			env := &SpecEnv{c: c, pkg: c.eng.pkgByPath(ct.PkgPath)}
			if t := env.typeOf(argOf(e)); t != nil {
				for _, key := range []string{c.heapKeyFor(t), c.arrKeyFor(t)} {
					c.ensureHeapSort(key, t)
					sorts = append(sorts, c.heapSorts[key])
					terms = append(terms, c.heapSym(st, key))
				}
			}
		}
	}
	uf := "purefn_" + sanitize(fnKey(callee))
	c.declUF(uf, sorts, c.sorts.sortOf(t))
	n := c.def("pa", c.sorts.sortOf(t), fmt.Sprintf("(%s %s)", uf, strings.Join(terms, " ")))
	c.assumeRange("true", t, n, 0)
	return c.mkVal(t, n), true
}

func (c *Ctx) applyGhost(cl *Clause, env *SpecEnv, st *State) {
	// "ghost cpu += EXPR"
	parts := strings.SplitN(cl.Text, "+=", 2)
	if len(parts) != 2 {
		return
	}
	g := strings.TrimSpace(parts[0])
	e, err := parseSpecExpr(parts[1])
	if err != nil {
		c.leave("bad ghost clause: " + cl.Text)
		return
	}
	v := c.specVal(env, e, types.Typ[types.Uint64])
	cur, ok := st.ghost[g]
	if !ok {
		cur = "0"
	}
	amt := v.S
	if c.mode == BV {
		amt = fmt.Sprintf("(bv2nat %s)", v.S)
	}
	st.ghost[g] = c.def("ghost_"+g, "Int", fmt.Sprintf("(+ %s %s)", cur, amt))
}

func (c *Ctx) calleeEnv(ct *Contract, callee *ssa.Function, call *ssa.CallCommon, args []Val, cur, old *State) *SpecEnv {
	env := &SpecEnv{c: c, vars: map[string]Val{}, cur: cur, old: old}
	if callee != nil {
		env.pkg = callee.Pkg.Pkg
		for i, p := range callee.Params {
			if i < len(args) {
				env.vars[p.Name()] = args[i]
			}
		}
		for old, i := range c.eng.paramAliases(callee) {
			if _, taken := env.vars[old]; !taken && i < len(args) {
				env.vars[old] = args[i]
			}
		}
	} else if call != nil {
		// interface method / function type contract: parameters named by
		// the signature, receiver named "self"
		sig := call.Signature()
		env.vars["self"] = args[0]
		for i := 0; i < sig.Params().Len(); i++ {
			n := sig.Params().At(i).Name()
			if n == "" {
				n = fmt.Sprintf("arg%d", i)
			}
			if i+1 < len(args) {
				env.vars[n] = args[i+1]
			}
		}
		env.pkg = c.eng.pkgByPath(ct.PkgPath)
	}
	return env
}

func (c *Ctx) bindResults(env *SpecEnv, callee *ssa.Function, call *ssa.CallCommon, rvals []Val) {
	var sig *types.Signature
	if callee != nil {
		sig = callee.Signature
	} else {
		sig = call.Signature()
	}
	for i, rv := range rvals {
		env.vars[fmt.Sprintf("result%d", i)] = rv
		if i < sig.Results().Len() {
			if n := sig.Results().At(i).Name(); n != "" && n != "_" {
				if _, clash := env.vars[n]; !clash {
					env.vars[n] = rv
				}
			}
		}
	}
	if len(rvals) >= 1 {
		env.vars["result"] = rvals[0]
	}
	if callee != nil {
		// the names the results had in the reference tree
		if ref := c.eng.refNames(callee); ref != nil && len(ref.Results) == sig.Results().Len() {
			for i, old := range ref.Results {
				if old == "" || old == "_" || i >= len(rvals) {
					continue
				}
				if _, clash := env.vars[old]; !clash {
					env.vars[old] = rvals[i]
				}
			}
		}
	}
}

// havocModifies replaces every location named by the contract's modifies
// clauses with a fresh value (quantifier-free frame).
func (c *Ctx) havocModifies(ct *Contract, env *SpecEnv, st *State) {
	saveCur := env.cur
	env.cur = env.old
	defer func() { env.cur = saveCur }()
	for _, cl := range ct.byKind("modifies") {
		for _, e := range cl.Exprs {
			c.havocLoc(env, e, st)
		}
	}
}

func (c *Ctx) havocLoc(env *SpecEnv, e ast.Expr, st *State) {
	// forms: loc, loc[*] (all elements of a slice: written as all(loc))
	if call, ok := e.(*ast.CallExpr); ok {
		if id, ok := call.Fun.(*ast.Ident); ok && id.Name == "all" && len(call.Args) == 1 {
			sv := c.specVal(env, call.Args[0], nil)
			if sl, ok := sv.T.Underlying().(*types.Slice); ok {
				key := c.arrKeyFor(sl.Elem())
				c.ensureHeapSort(key, sl.Elem())
				h := c.heapSym(st, key)
				fa := c.decl("modarr", fmt.Sprintf("(Array %s %s)", c.sorts.idxSort(), c.sorts.sortOf(sl.Elem())))
				st.heaps[key] = c.def("heap", c.heapSorts[key], fmt.Sprintf("(store %s (s_arr %s) %s)", h, sv.S, fa))
				return
			}
			if sv.P != nil { // all(*p): whole object
				hv := c.havocVal(sv.P.ET, "mod")
				c.store(st, sv.P, hv.S)
				return
			}
		}
		if id, ok := call.Fun.(*ast.Ident); ok && id.Name == "heap" && len(call.Args) == 1 {
			// heap(T): every object of type T may change
			if tv := env.typeOf(call.Args[0]); tv != nil {
				key := c.heapKeyFor(tv)
				c.ensureHeapSort(key, tv)
				st.heaps[key] = c.decl("modheap", c.heapSorts[key])
				c.refAxioms(st.heaps[key], key, st.alloc)
				akey := c.arrKeyFor(tv) // elements of []T as well
				c.ensureHeapSort(akey, tv)
				st.heaps[akey] = c.decl("modheap", c.heapSorts[akey])
				c.refAxioms(st.heaps[akey], akey, st.alloc)
				return
			}
		}
		if id, ok := call.Fun.(*ast.Ident); ok && id.Name == "everything" {
			c.havocAll(st, true)
			return
		}
	}
	p := c.specAddr(env, e)
	if p == nil {
		c.leave("cannot resolve modifies location " + exprString(e))
		c.havocAll(st, true)
		return
	}
	hv := c.havocVal(p.ET, "mod")
	c.store(st, p, hv.S)
}

// ---- builtins ----

func (c *Ctx) execBuiltin(fr *Frame, st *State, b *ssa.Builtin, call *ssa.CallCommon, args []Val, rt types.Type, pos token.Pos) (Val, bool) {
	it := types.Typ[types.Int]
	switch b.Name() {
	case "len":
		a := args[0]
		switch a.T.Underlying().(type) {
		case *types.Slice:
			return c.mkVal(it, fmt.Sprintf("(s_len %s)", a.S)), true
		case *types.Basic:
			n := c.def("len", c.sorts.idxSort(), fmt.Sprintf("(str_len %s)", a.S))
			c.assume("true", c.inBounds(n, c.sorts.idxLit(1<<47)))
			return c.mkVal(it, n), true
		case *types.Array:
			return c.mkVal(it, c.sorts.idxLit(a.T.Underlying().(*types.Array).Len())), true
		case *types.Pointer:
			if arr, ok := a.T.Underlying().(*types.Pointer).Elem().Underlying().(*types.Array); ok {
				return c.mkVal(it, c.sorts.idxLit(arr.Len())), true
			}
		}
		hv := c.havocVal(it, "len")
		c.assume("true", c.inBounds(hv.S, c.sorts.idxLit(1<<47)))
		return hv, true
	case "cap":
		a := args[0]
		if _, ok := a.T.Underlying().(*types.Slice); ok {
			return c.mkVal(it, fmt.Sprintf("(s_cap %s)", a.S)), true
		}
		return c.havocVal(it, "cap"), true
	case "append":
		return c.execAppend(fr, st, args, rt), true
	case "copy":
		return c.execCopy(fr, st, args), true
	case "min", "max":
		if len(args) == 2 && args[0].S != "" {
			op := token.LSS
			if b.Name() == "max" {
				op = token.GTR
			}
			cmp, _, ok := c.binop(op, args[0].S, args[1].S, args[0].T, args[1].T)
			if ok {
				return c.mkVal(args[0].T, c.ite(cmp, args[0].S, args[1].S)), true
			}
		}
	case "recover":
		c.leave("recover() outside the audited forms in " + fr.fn.Name())
		return c.havocVal(rt, "recover"), true
	case "print", "println", "delete", "close", "clear":
		return Val{T: rt}, true
	case "ssa:wrapnilchk":
		return args[0], true
	}
	c.note("builtin " + b.Name() + " havocked")
	if rt == nil {
		return Val{}, true
	}
	return c.havocVal(rt, "builtin"), true
}

// append(s, t...): result has len(s)+len(t); elements preserved; backing
// array is either s's (when capacity suffices) or fresh.  We model the result
// as a fresh backing array unless capacity suffices, in which case it is
// written in place (exactly Go's semantics up to the growth policy).
func (c *Ctx) execAppend(fr *Frame, st *State, args []Val, rt types.Type) Val {
	s, t := args[0], args[1]
	sl, ok := rt.Underlying().(*types.Slice)
	if !ok || s.S == "" || t.S == "" {
		c.havocAll(st, true)
		return c.havocVal(rt, "append")
	}
	elem := sl.Elem()
	key := c.arrKeyFor(elem)
	c.ensureHeapSort(key, elem)
	idx := c.sorts.idxSort()
	var tlen string
	tIsStr := isStringType(t.T)
	if tIsStr {
		tlen = fmt.Sprintf("(str_len %s)", t.S)
	} else {
		tlen = fmt.Sprintf("(s_len %s)", t.S)
	}
	newLen := c.def("aplen", idx, c.idxAdd(fmt.Sprintf("(s_len %s)", s.S), tlen))
	fits := c.def("apfits", "Bool", c.idxLe(newLen, fmt.Sprintf("(s_cap %s)", s.S)))
	h := c.heapSym(st, key)
	fresh := c.def("aparr", "Int", st.alloc)
	st.alloc = c.def("alloc", "Int", fmt.Sprintf("(+ %s 1)", fresh))
	arrRef := c.def("apref", "Int", c.ite(fits, fmt.Sprintf("(s_arr %s)", s.S), fresh))
	off := c.def("apoff", idx, c.ite(fits, fmt.Sprintf("(s_off %s)", s.S), c.sorts.idxLit(0)))
	ncap := c.decl("apcap", idx)
	c.assume(st.reach, and(c.idxLe(newLen, ncap), c.idxLe(ncap, c.sorts.idxLit(1<<47)), fmt.Sprintf("(=> %s (= %s (s_cap %s)))", fits, ncap, s.S)))
	// new array contents
	na := c.decl("apdata", fmt.Sprintf("(Array %s %s)", idx, c.sorts.sortOf(elem)))
	oldArr := fmt.Sprintf("(select %s (s_arr %s))", h, s.S)
	var telem string
	if tIsStr {
		telem = fmt.Sprintf("(str_at %s %s)", t.S, c.idxSub("i", fmt.Sprintf("(s_len %s)", s.S)))
	} else {
		telem = fmt.Sprintf("(select (select %s (s_arr %s)) %s)", h, t.S, c.idxAdd(fmt.Sprintf("(s_off %s)", t.S), c.idxSub("i", fmt.Sprintf("(s_len %s)", s.S))))
	}
	c.assume(st.reach, fmt.Sprintf("(forall ((i %s)) (! (and (=> %s (= (select %s %s) (select %s %s))) (=> (and %s %s) (= (select %s %s) %s))) :pattern ((select %s %s))))",
		idx,
		c.inBounds("i", fmt.Sprintf("(s_len %s)", s.S)), na, c.idxAdd(off, "i"), oldArr, c.idxAdd(fmt.Sprintf("(s_off %s)", s.S), "i"),
		c.idxLe(fmt.Sprintf("(s_len %s)", s.S), "i"), c.inBounds("i", newLen), na, c.idxAdd(off, "i"), telem,
		na, c.idxAdd(off, "i")))
	// in-place case: elements outside [off+len(s), off+newLen) unchanged
	c.assume(st.reach, fmt.Sprintf("(=> %s (forall ((j %s)) (! (=> (not %s) (= (select %s j) (select %s j))) :pattern ((select %s j)))))",
		fits, idx, c.inBounds(c.idxSub("j", c.idxAdd(off, fmt.Sprintf("(s_len %s)", s.S))), tlen), na, oldArr, na))
	st.heaps[key] = c.def("heap", c.heapSorts[key], fmt.Sprintf("(store %s %s %s)", h, arrRef, na))
	r := c.def("append", "Slice", fmt.Sprintf("(mk_Slice %s %s %s %s)", arrRef, off, newLen, ncap))
	return c.mkVal(rt, r)
}

func (c *Ctx) execCopy(fr *Frame, st *State, args []Val) Val {
	it := types.Typ[types.Int]
	d, s := args[0], args[1]
	dsl, ok := d.T.Underlying().(*types.Slice)
	if !ok || d.S == "" || s.S == "" {
		c.havocAll(st, true)
		return c.havocVal(it, "copy")
	}
	elem := dsl.Elem()
	key := c.arrKeyFor(elem)
	c.ensureHeapSort(key, elem)
	idx := c.sorts.idxSort()
	var slen string
	sIsStr := isStringType(s.T)
	if sIsStr {
		slen = fmt.Sprintf("(str_len %s)", s.S)
	} else {
		slen = fmt.Sprintf("(s_len %s)", s.S)
	}
	dl := fmt.Sprintf("(s_len %s)", d.S)
	n := c.def("copyn", idx, c.ite(c.idxLe(dl, slen), dl, slen))
	h := c.heapSym(st, key)
	na := c.decl("copydata", fmt.Sprintf("(Array %s %s)", idx, c.sorts.sortOf(elem)))
	oldArr := fmt.Sprintf("(select %s (s_arr %s))", h, d.S)
	var selem string
	if sIsStr {
		selem = fmt.Sprintf("(str_at %s i)", s.S)
	} else {
		selem = fmt.Sprintf("(select (select %s (s_arr %s)) %s)", h, s.S, c.idxAdd(fmt.Sprintf("(s_off %s)", s.S), "i"))
	}
	doff := fmt.Sprintf("(s_off %s)", d.S)
	c.assume(st.reach, fmt.Sprintf("(forall ((i %s)) (! (=> %s (= (select %s %s) %s)) :pattern ((select %s %s))))",
		idx, c.inBounds("i", n), na, c.idxAdd(doff, "i"), selem, na, c.idxAdd(doff, "i")))
	c.assume(st.reach, fmt.Sprintf("(forall ((j %s)) (! (=> (not %s) (= (select %s j) (select %s j))) :pattern ((select %s j))))",
		idx, c.inBounds(c.idxSub("j", doff), n), na, oldArr, na))
	st.heaps[key] = c.def("heap", c.heapSorts[key], fmt.Sprintf("(store %s (s_arr %s) %s)", h, d.S, na))
	return c.mkVal(it, n)
}

// ---- defers ----

// runDefers executes the deferred calls registered so far in LIFO order on
// state st (normal path).  Each deferred call runs only if its Defer
// instruction was reached.
func (c *Ctx) runDefers(fr *Frame, st *State, panicking bool) {
	for i := len(fr.defers) - 1; i >= 0; i-- {
		d := fr.defers[i]
		// run the call under condition d.cond: execute on a cloned state and merge
		run := st.clone()
		run.reach = c.def("reach", "Bool", and(st.reach, d.cond))
		skip := st.clone()
		skip.reach = c.def("reach", "Bool", and(st.reach, not(d.cond)))
		c.execDeferred(fr, run, d)
		if d.cond == "true" || d.cond == fr.entry.reach {
			*st = *run
			continue
		}
		m := c.mergeStates([]*State{run, skip}, []string{run.reach, skip.reach})
		*st = *m
	}
}

func (c *Ctx) execDeferred(fr *Frame, st *State, d deferred) {
	call := d.call
	if b, ok := call.Value.(*ssa.Builtin); ok {
		c.execBuiltin(fr, st, b, call, d.args, call.Signature().Results(), d.pos)
		return
	}
	// rebuild a call with pre-evaluated arguments
	callee := call.StaticCallee()
	var clo []Val
	if callee == nil && d.fnv.Fn != nil {
		callee = d.fnv.Fn
		clo = d.fnv.Clo
	} else if callee != nil && d.fnv.Fn == callee {
		clo = d.fnv.Clo
	}
	if call.IsInvoke() || callee == nil {
		if call.IsInvoke() {
			if ct := c.eng.invokeContract(call); ct != nil {
				all := append([]Val{d.fnv}, d.args...)
				c.applyContract(fr, st, ct, nil, call, all, call.Signature().Results(), d.pos)
				return
			}
		}
		c.externals["deferred dynamic call"] = true
		c.havocAll(st, true)
		return
	}
	key := fnKey(callee)
	ct := c.eng.contractOf(callee)
	c.callSiteAsserts(fr, st, callee, d.args, "assert_before_call", d.pos, nil)
	switch c.callPolicy(callee, ct, fr.depth) {
	case polInline:
		c.inlined[key] = true
		sub := c.newFrame(callee, fr.depth+1)
		rst, _ := c.execBody(sub, st.clone(), d.args, clo)
		fr.panics = append(fr.panics, sub.panics...)
		*st = *rst
	case polContract:
		c.applyContract(fr, st, ct, callee, call, d.args, call.Signature().Results(), d.pos)
	case polPure:
	default:
		if callee.Parent() != nil && len(callee.Blocks) > 0 && !hasLoop(callee) {
			// deferred closure literal: always inline
			c.inlined[key] = true
			sub := c.newFrame(callee, fr.depth+1)
			rst, _ := c.execBody(sub, st.clone(), d.args, clo)
			fr.panics = append(fr.panics, sub.panics...)
			*st = *rst
			return
		}
		c.externals[key] = true
		c.havocAll(st, true)
	}
}

func siteInstr(site ssa.Value) ssa.Instruction {
	if site == nil {
		return nil
	}
	if in, ok := site.(ssa.Instruction); ok {
		return in
	}
	return nil
}

func modifiesNothing(ct *Contract) bool {
	mods := ct.byKind("modifies")
	if len(mods) == 0 {
		return false
	}
	for _, cl := range mods {
		if len(cl.Exprs) > 0 {
			return false
		}
	}
	return true
}

// sourceOrdinal: position of call instruction `at` among the calls of the
// function to the callee named `form` (short name, qualified name or
// receiver-qualified name), in source order.
func sourceOrdinal(eng *Engine, fr *Frame, at ssa.Instruction, form string) (int, bool) {
	if at == nil || fr.fn == nil {
		return 0, false
	}
	if fr.siteOrd == nil {
		fr.siteOrd = map[string]map[ssa.Instruction]int{}
	}
	m, ok := fr.siteOrd[form]
	if !ok {
		type site struct {
			in  ssa.Instruction
			pos token.Pos
		}
		var sites []site
		for _, b := range fr.fn.Blocks {
			for _, in := range b.Instrs {
				ci, ok := in.(ssa.CallInstruction)
				if !ok {
					continue
				}
				callee := ci.Common().StaticCallee()
				if callee == nil {
					continue
				}
				match := callee.Name() == form || fnKey(callee) == form || (callee.Pkg != nil && callee.RelString(callee.Pkg.Pkg) == form)
				if !match {
					match = eng.wasCalled(callee, form)
				}
				if match {
					sites = append(sites, site{in, in.Pos()})
				}
			}
		}
		sort.SliceStable(sites, func(i, j int) bool { return sites[i].pos < sites[j].pos })
		m = map[ssa.Instruction]int{}
		for i, s := range sites {
			m[s.in] = i + 1
		}
		fr.siteOrd[form] = m
	}
	n, ok := m[at]
	return n, ok
}

func sortedGhosts(st *State) []string {
	var ks []string
	for k := range st.ghost {
		ks = append(ks, k)
	}
	sort.Strings(ks)
	return ks
}

func isBufferMethod(fn *ssa.Function) bool {
	recv := fn.Signature.Recv()
	if recv == nil {
		return false
	}
	pt, ok := recv.Type().(*types.Pointer)
	if !ok {
		return false
	}
	n, ok := pt.Elem().(*types.Named)
	if !ok || n.Obj().Pkg() == nil {
		return false
	}
	switch n.Obj().Pkg().Path() + "." + n.Obj().Name() {
	case "bytes.Buffer", "strings.Builder":
		switch fn.Name() {
		case "Write", "WriteByte", "WriteString", "WriteRune", "Len", "String", "Bytes", "Reset", "Cap":
			return true
		}
	}
	return false
}

// ghostNamesIn lists the names g of ghost(g) occurrences in a clause text.
func ghostNamesIn(text string) []string {
	var out []string
	seen := map[string]bool{}
	for i := 0; i+6 <= len(text); i++ {
		if strings.HasPrefix(text[i:], "ghost(") && (i == 0 || !isIdentChar(text[i-1])) {
			j := i + 6
			k := j
			for k < len(text) && isIdentChar(text[k]) {
				k++
			}
			if k > j && k < len(text) && text[k] == ')' && !seen[text[j:k]] {
				seen[text[j:k]] = true
				out = append(out, text[j:k])
			}
		}
	}
	return out
}
