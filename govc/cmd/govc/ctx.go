package main

// Verification context: SMT script builder, symbolic state, values, pointers.

import (
	"fmt"
	"go/token"
	"go/types"
	"sort"
	"strings"

	"golang.org/x/tools/go/ssa"
)

type Val struct {
	T     types.Type
	S     string // SMT term ("" for interior pointers and tuples)
	P     *Ptr
	Elems []Val
	Fn    *ssa.Function // statically known function value
	Clo   []Val         // closure bindings when Fn is a closure
	Dyn   *dynVal       // interface value built in this path from a value of a known concrete type
}

type dynVal struct {
	T types.Type
	V Val
}

type Sel struct {
	IsIndex bool
	Field   int
	ST      types.Type // struct type (for field selectors)
	Index   string
}

type Ptr struct {
	Key  string // heap key: "H:<type>", "A:<elemtype>", "L:<id>", "G:<name>"
	Base string // Ref term; "" for cells (L:, G:)
	Path []Sel
	ET   types.Type // type of the pointed-to location
	Cast types.Type // set if reached through unsafe.Pointer reinterpretation: original ET
}

func (p *Ptr) isCell() bool { return strings.HasPrefix(p.Key, "L:") || strings.HasPrefix(p.Key, "G:") }

type State struct {
	reach string
	heaps map[string]string
	ghost map[string]string
	alloc string
	epoch int
}

func (s *State) clone() *State {
	n := &State{reach: s.reach, alloc: s.alloc, epoch: s.epoch, heaps: map[string]string{}, ghost: map[string]string{}}
	for k, v := range s.heaps {
		n.heaps[k] = v
	}
	for k, v := range s.ghost {
		n.ghost[k] = v
	}
	return n
}

type Obl struct {
	Name   string
	Kind   string
	Guard  string
	Goal   string
	Pos    token.Position
	PreLen int    // number of prelude lines visible
	Cover  bool   // expect sat
	Extra  string // extra text (e.g. get-value terms)
	Func   string
	Desc   string
}

type Ctx struct {
	eng       *Engine
	captured  map[string]Val // capture CALLEE as NAME
	mode      Mode
	sorts     *Sorts
	pre       []string
	obls      []*Obl
	n         int
	notes     map[string]bool
	inlined   map[string]bool
	externals map[string]bool
	trusted   map[string]bool
	heapSorts map[string]string
	initHeaps map[string]string // key|epoch -> symbol
	frames    int
	fnKey     string
	outside   []string // reasons this function left the subset
	rte       bool
	specUsed  map[string]bool
	modelVars [][2]string // (label, term) for get-value
	ufs       map[string]bool
	constGlob  map[string]string
	heapTypes  map[string]types.Type
	stablePrev map[string]string // "<key>|<epoch>" -> heap term before the havoc that opened the epoch
	epochAlloc map[int]string
	posQuants []*posQuant
	idxTerms  []string
	instDone  map[string]bool
	inQuant   int
	coverCalls bool
	privRefs   []privRef
	curTop     ssa.Instruction // instruction of the function under contract being executed
}

func newCtx(eng *Engine, mode Mode, fnKey string) *Ctx {
	return &Ctx{eng: eng, mode: mode, sorts: newSorts(mode), notes: map[string]bool{}, inlined: map[string]bool{},
		externals: map[string]bool{}, trusted: map[string]bool{}, heapSorts: map[string]string{}, initHeaps: map[string]string{},
		fnKey: fnKey, specUsed: map[string]bool{}, ufs: map[string]bool{}, instDone: map[string]bool{}, heapTypes: map[string]types.Type{}, constGlob: map[string]string{}, epochAlloc: map[int]string{}}
}

func (c *Ctx) fresh(prefix string) string {
	c.n++
	return fmt.Sprintf("%s!%d", prefix, c.n)
}

func q(name string) string {
	for _, r := range name {
		if !(r >= 'a' && r <= 'z' || r >= 'A' && r <= 'Z' || r >= '0' && r <= '9' || r == '_' || r == '.' || r == '!') {
			return "|" + name + "|"
		}
	}
	return name
}

func (c *Ctx) emit(line string) { c.pre = append(c.pre, line) }

func (c *Ctx) def(prefix, sort, term string) string {
	n := q(c.fresh(prefix))
	c.emit(fmt.Sprintf("(define-fun %s () %s %s)", n, sort, term))
	return n
}

func (c *Ctx) decl(prefix, sort string) string {
	n := q(c.fresh(prefix))
	c.emit(fmt.Sprintf("(declare-const %s %s)", n, sort))
	return n
}

func (c *Ctx) declUF(name string, args []string, ret string) {
	if c.ufs[name] {
		return
	}
	c.ufs[name] = true
	c.emit(fmt.Sprintf("(declare-fun %s (%s) %s)", name, strings.Join(args, " "), ret))
}

func (c *Ctx) assume(guard, fact string) {
	if fact == "true" {
		return
	}
	if guard == "true" || guard == "" {
		c.emit("(assert " + fact + ")")
	} else {
		c.emit(fmt.Sprintf("(assert (=> %s %s))", guard, fact))
	}
	c.registerQuants(guard, fact)
}

// ---- ground instantiation of assumed universal facts ----------------------
// The solvers often fail to instantiate `forall j. lo <= j < hi => P(j)`
// hypotheses at the index the code actually touches (the index is hidden under
// offset arithmetic).  Every universally quantified fact that is assumed in a
// positive position is therefore also assumed at each slice index term of the
// function: (forall j. B(j)) implies B(t), so this adds nothing that is not
// already a consequence of the hypotheses.

type posQuant struct {
	guard string
	pre   string // fact text before the forall
	post  string // fact text after the forall
	vn    string
	body  string
}

// findPositiveForall locates a forall that occurs in a positive position of
// fact (reached through `and`, the consequent of `=>`, and `let` bodies only).
func findPositiveForalls(fact string) [][2]int {
	var out [][2]int
	var walk func(from, to int)
	walk = func(from, to int) {
		t := strings.TrimSpace(fact[from:to])
		off := from + strings.Index(fact[from:to], t)
		if !strings.HasPrefix(t, "(") {
			return
		}
		inner := t[1 : len(t)-1]
		// split head and args with positions
		i := 0
		for i < len(inner) && inner[i] != ' ' && inner[i] != '(' {
			i++
		}
		head := inner[:i]
		// positions of top-level args
		var args [][2]int
		j := i
		for j < len(inner) {
			if inner[j] == ' ' || inner[j] == '\n' || inner[j] == '\t' {
				j++
				continue
			}
			if inner[j] == '(' {
				_, end := readSexp(inner, j)
				args = append(args, [2]int{off + 1 + j, off + 1 + end})
				j = end
				continue
			}
			k := j
			for k < len(inner) && !strings.ContainsRune(" \t\n()", rune(inner[k])) {
				k++
			}
			args = append(args, [2]int{off + 1 + j, off + 1 + k})
			j = k
		}
		switch head {
		case "forall":
			out = append(out, [2]int{off, off + len(t)})
		case "and":
			for _, a := range args {
				walk(a[0], a[1])
			}
		case "=>":
			if len(args) == 2 {
				walk(args[1][0], args[1][1])
			}
		case "let":
			if len(args) == 2 {
				walk(args[1][0], args[1][1])
			}
		}
	}
	walk(0, len(fact))
	return out
}

func (c *Ctx) registerQuants(guard, fact string) {
	if !strings.Contains(fact, "(forall ((") {
		return
	}
	for _, span := range findPositiveForalls(fact) {
		q := fact[span[0]:span[1]] // (forall ((vn Sort)) BODY)
		parts := topSexps(q[1 : len(q)-1])
		if len(parts) != 3 {
			continue
		}
		bind := parts[1] // ((vn Sort))
		inner := topSexps(bind[1 : len(bind)-1])
		if len(inner) != 1 {
			continue
		}
		vs := topSexps(inner[0][1 : len(inner[0])-1])
		if len(vs) != 2 || vs[1] != c.sorts.idxSort() {
			continue
		}
		body := parts[2]
		if strings.HasPrefix(body, "(!") { // strip pattern annotation
			bp := topSexps(body[1 : len(body)-1])
			if len(bp) >= 2 {
				body = bp[1]
			}
		}
		pq := &posQuant{guard: guard, pre: fact[:span[0]], post: fact[span[1]:], vn: vs[0], body: body}
		c.posQuants = append(c.posQuants, pq)
		for _, t := range c.idxTerms {
			c.instantiate(pq, t)
		}
	}
}

func replaceToken(s, tok, by string) string {
	var b strings.Builder
	i := 0
	for i < len(s) {
		j := strings.Index(s[i:], tok)
		if j < 0 {
			b.WriteString(s[i:])
			break
		}
		j += i
		end := j + len(tok)
		okL := j == 0 || strings.ContainsRune(" ()\t\n", rune(s[j-1]))
		okR := end == len(s) || strings.ContainsRune(" ()\t\n", rune(s[end]))
		if okL && okR {
			b.WriteString(s[i:j])
			b.WriteString(by)
		} else {
			b.WriteString(s[i:end])
		}
		i = end
	}
	return b.String()
}

func (c *Ctx) instantiate(pq *posQuant, term string) {
	key := pq.vn + "|" + term
	if c.instDone[key] {
		return
	}
	c.instDone[key] = true
	inst := pq.pre + replaceToken(pq.body, pq.vn, term) + pq.post
	if pq.guard == "true" || pq.guard == "" {
		c.emit("(assert " + inst + ")")
	} else {
		c.emit(fmt.Sprintf("(assert (=> %s %s))", pq.guard, inst))
	}
}

// registerIdx records a slice index term of the function (ground: it must not
// mention a bound variable) and instantiates the assumed universal facts at it.
func (c *Ctx) registerIdx(term string) {
	if term == "" || strings.Contains(term, "!q") || c.inQuant > 0 {
		return
	}
	for _, t := range c.idxTerms {
		if t == term {
			return
		}
	}
	if len(c.idxTerms) > 40 {
		return
	}
	c.idxTerms = append(c.idxTerms, term)
	for _, pq := range c.posQuants {
		c.instantiate(pq, term)
	}
}

func (c *Ctx) oblige(kind, name, guard, goal string, pos token.Position) *Obl {
	o := &Obl{Name: name, Kind: kind, Guard: guard, Goal: goal, Pos: pos, PreLen: len(c.pre), Func: c.fnKey}
	c.obls = append(c.obls, o)
	return o
}

func (c *Ctx) note(s string) { c.notes[s] = true }

func (c *Ctx) leave(reason string) {
	for _, r := range c.outside {
		if r == reason {
			return
		}
	}
	c.outside = append(c.outside, reason)
}

func sortedKeys(m map[string]bool) []string {
	var ks []string
	for k := range m {
		ks = append(ks, k)
	}
	sort.Strings(ks)
	return ks
}

// ---- heaps ----

func (c *Ctx) heapKeyFor(t types.Type) string { return "H:" + t.String() }
func (c *Ctx) arrKeyFor(elem types.Type) string { return "A:" + elem.String() }

func (c *Ctx) ensureHeapSort(key string, t types.Type) {
	if _, ok := c.heapSorts[key]; ok {
		return
	}
	c.heapTypes[key] = t
	switch {
	case strings.HasPrefix(key, "H:"):
		c.heapSorts[key] = "(Array Int " + c.sorts.sortOf(t) + ")"
	case strings.HasPrefix(key, "A:"):
		c.heapSorts[key] = "(Array Int (Array " + c.sorts.idxSort() + " " + c.sorts.sortOf(t) + "))"
	default:
		c.heapSorts[key] = c.sorts.sortOf(t)
	}
}

func (c *Ctx) heapSym(st *State, key string) string {
	if s, ok := st.heaps[key]; ok {
		return s
	}
	if s, ok := c.constGlob[key]; ok {
		return s // package-level constant: the same value in every state
	}
	ik := fmt.Sprintf("%s|%d", key, st.epoch)
	if s, ok := c.initHeaps[ik]; ok {
		return s
	}
	srt, ok := c.heapSorts[key]
	if !ok {
		panic("heap sort unknown for " + key)
	}
	s := c.decl("heap_"+sanitize(key), srt)
	c.initHeaps[ik] = s
	if bound, ok := c.epochAlloc[st.epoch]; ok {
		c.refAxioms(s, key, bound)
	}
	if prev, ok := c.stablePrev[ik]; ok {
		if n, isN := c.heapTypes[key].(*types.Named); isN && n.Obj().Pkg() != nil {
			info := c.sorts.info(n)
			for _, sf := range lookupStable(n.Obj().Pkg().Path() + "." + n.Obj().Name()) {
				for i, fname := range info.fnames {
					if fname == sf.Field {
						acc := info.fields[i]
						c.emit(fmt.Sprintf("(assert (forall ((r!st Int)) (! (= (%s (select %s r!st)) (%s (select %s r!st))) :pattern ((select %s r!st)))))", acc, s, acc, prev, s))
						c.trusted[fmt.Sprintf("stable field %s.%s: keeps its value across calls with unknown effects (write sites audited by the effect checker)", sf.Type, sf.Field)] = true
					}
				}
			}
		}
	}
	return s
}

// refPaths lists the reference-valued components (pointers, backing arrays of
// slices) reachable by value inside a value of type t, as accessor terms over x.
func (c *Ctx) refPaths(t types.Type, x string, depth int) []string {
	if depth > 2 {
		return nil
	}
	switch t.Underlying().(type) {
	case *types.Pointer:
		return []string{x}
	case *types.Slice:
		return []string{fmt.Sprintf("(s_arr %s)", x)}
	case *types.Struct:
		info := c.sorts.info(t)
		var out []string
		for i, ft := range info.ftypes {
			out = append(out, c.refPaths(ft, fmt.Sprintf("(%s %s)", info.fields[i], x), depth+1)...)
		}
		return out
	}
	return nil
}

// refAxioms: well-formedness of a heap as it stands at the beginning of an
// epoch (function entry, or right after an unknown call): every reference
// stored in it was allocated before `bound`, so it cannot alias anything
// allocated later.
func (c *Ctx) refAxioms(heap, key string, bound string) {
	t := c.heapTypes[key]
	if t == nil {
		return
	}
	switch {
	case strings.HasPrefix(key, "H:"):
		paths := c.refPaths(t, fmt.Sprintf("(select %s r!a)", heap), 0)
		if len(paths) == 0 {
			return
		}
		var cs []string
		for _, p := range paths {
			cs = append(cs, fmt.Sprintf("(< %s %s)", p, bound))
		}
		c.emit(fmt.Sprintf("(assert (forall ((r!a Int)) (! %s :pattern ((select %s r!a)))))", and(cs...), heap))
	case strings.HasPrefix(key, "A:"):
		paths := c.refPaths(t, fmt.Sprintf("(select (select %s r!a) i!a)", heap), 0)
		if len(paths) == 0 {
			return
		}
		var cs []string
		for _, p := range paths {
			cs = append(cs, fmt.Sprintf("(< %s %s)", p, bound))
		}
		c.emit(fmt.Sprintf("(assert (forall ((r!a Int) (i!a %s)) (! %s :pattern ((select (select %s r!a) i!a)))))", c.sorts.idxSort(), and(cs...), heap))
	}
}

type privRef struct {
	key   string
	ref   string
	until []ssa.Instruction // private only while none of these (captures) can have run
}

func (c *Ctx) havocAll(st *State, keepCells bool) {
	// objects allocated by this function that have not escaped (never stored, passed to a
	// call or captured - only returned) cannot be touched by the unknown code: keep them
	type saved struct {
		pr  privRef
		val string
	}
	var keep []saved
	for _, pr := range c.privRefs {
		if _, ok := c.heapSorts[pr.key]; !ok {
			continue
		}
		escaped := false
		for _, u := range pr.until {
			if mayHaveRun(u, c.curTop) {
				escaped = true
			}
		}
		if escaped {
			continue
		}
		rootSort := strings.TrimSuffix(strings.TrimPrefix(c.heapSorts[pr.key], "(Array Int "), ")")
		keep = append(keep, saved{pr, c.def("priv", rootSort, fmt.Sprintf("(select %s %s)", c.heapSym(st, pr.key), pr.ref))})
	}
	defer func() {
		for _, k := range keep {
			st.heaps[k.pr.key] = c.def("heap", c.heapSorts[k.pr.key], fmt.Sprintf("(store %s %s %s)", c.heapSym(st, k.pr.key), k.pr.ref, k.val))
		}
	}()
	// fields declared stable keep their values across the unknown code
	prevStable := map[string]string{}
	for k, t := range c.heapTypes {
		if !strings.HasPrefix(k, "H:") {
			continue
		}
		if n, ok := t.(*types.Named); ok && n.Obj().Pkg() != nil && len(lookupStable(n.Obj().Pkg().Path()+"."+n.Obj().Name())) > 0 {
			prevStable[k] = c.heapSym(st, k)
		}
	}
	c.frames++
	st.epoch = 1000 + c.frames*7 + c.n
	if c.stablePrev == nil {
		c.stablePrev = map[string]string{}
	}
	for k, prev := range prevStable {
		c.stablePrev[fmt.Sprintf("%s|%d", k, st.epoch)] = prev
	}
	for k := range st.heaps {
		if keepCells && strings.HasPrefix(k, "L:") {
			continue
		}
		if strings.HasPrefix(k, "G:") && c.eng.constGlobal(k[2:]) {
			continue
		}
		delete(st.heaps, k)
	}
	na := c.decl("alloc", "Int")
	c.assume("true", fmt.Sprintf("(>= %s %s)", na, st.alloc))
	st.alloc = na
	c.epochAlloc[st.epoch] = na
}

// rootTerm reads the root object a pointer is based on.
func (c *Ctx) rootTerm(st *State, p *Ptr) string {
	h := c.heapSym(st, p.Key)
	if p.isCell() {
		return h
	}
	return fmt.Sprintf("(select %s %s)", h, p.Base)
}

func (c *Ctx) project(root string, path []Sel) string {
	t := root
	for _, s := range path {
		if s.IsIndex {
			t = fmt.Sprintf("(select %s %s)", t, s.Index)
		} else {
			info := c.sorts.info(s.ST)
			t = fmt.Sprintf("(%s %s)", info.fields[s.Field], t)
		}
	}
	return t
}

func (c *Ctx) update(root string, path []Sel, v string) string {
	if len(path) == 0 {
		return v
	}
	s := path[0]
	if s.IsIndex {
		inner := c.update(fmt.Sprintf("(select %s %s)", root, s.Index), path[1:], v)
		return fmt.Sprintf("(store %s %s %s)", root, s.Index, inner)
	}
	info := c.sorts.info(s.ST)
	var parts []string
	for i, acc := range info.fields {
		cur := fmt.Sprintf("(%s %s)", acc, root)
		if i == s.Field {
			parts = append(parts, c.update(cur, path[1:], v))
		} else {
			parts = append(parts, cur)
		}
	}
	return "(" + info.ctor + " " + strings.Join(parts, " ") + ")"
}

func (c *Ctx) load(st *State, p *Ptr) Val {
	if p.Cast != nil {
		// reinterpretation through unsafe.Pointer
		inner := &Ptr{Key: p.Key, Base: p.Base, Path: p.Path, ET: p.Cast}
		src := c.load(st, inner)
		if c.mode == BV {
			if isFloatType(p.Cast) && isInt64Like(p.ET) {
				c.note("unsafe: float64 bits reinterpreted as uint64 (f64bits, axiom to_fp(f64bits f) = f)")
				return Val{T: p.ET, S: c.f64bits(src.S)}
			}
			if isInt64Like(p.Cast) && isFloatType(p.ET) {
				c.note("unsafe: uint64 reinterpreted as float64 bits (to_fp)")
				return Val{T: p.ET, S: "((_ to_fp 11 53) " + src.S + ")"}
			}
			// *(*uint64)(unsafe.Pointer(&bs[i])): eight consecutive bytes, little endian (amd64)
			if bits, _, ok := isIntType(p.Cast); ok && bits == 8 && isInt64Like(p.ET) && len(p.Path) > 0 && p.Path[len(p.Path)-1].IsIndex {
				c.note("unsafe: 8 bytes of a []byte read as one little-endian uint64 (amd64)")
				base := &Ptr{Key: p.Key, Base: p.Base, Path: p.Path[:len(p.Path)-1], ET: p.Cast}
				c.ensureHeapSort(p.Key, p.Cast)
				arr := c.project(c.rootTerm(st, base), base.Path)
				idx := p.Path[len(p.Path)-1].Index
				t := ""
				for k := 7; k >= 0; k-- {
					b := fmt.Sprintf("(select %s (bvadd %s %s))", arr, idx, c.sorts.idxLit(int64(k)))
					if t == "" {
						t = b
					} else {
						t = fmt.Sprintf("(concat %s %s)", t, b)
					}
				}
				return Val{T: p.ET, S: t}
			}
		}
		c.note("unsafe cast load havocked: " + p.Cast.String() + " as " + p.ET.String())
		return c.havocVal(p.ET, "unsafe")
	}
	c.ensureHeapSort(p.Key, rootTypeOf(p))
	root := c.rootTerm(st, p)
	t := c.project(root, p.Path)
	v := c.mkVal(p.ET, t)
	return v
}

func isInt64Like(t types.Type) bool {
	bits, _, ok := isIntType(t)
	return ok && bits == 64
}

func rootTypeOf(p *Ptr) types.Type {
	if len(p.Path) == 0 {
		return p.ET
	}
	if strings.HasPrefix(p.Key, "A:") {
		// element type is recoverable only from the key's creator; callers
		// always ensureHeapSort at creation, so this is never reached.
		return p.ET
	}
	if !p.Path[0].IsIndex {
		return p.Path[0].ST
	}
	return p.ET
}

func (c *Ctx) store(st *State, p *Ptr, v string) {
	if p.Cast != nil {
		c.note("unsafe cast store: location havocked")
		inner := &Ptr{Key: p.Key, Base: p.Base, Path: p.Path, ET: p.Cast}
		hv := c.havocVal(p.Cast, "unsafe")
		c.store(st, inner, hv.S)
		return
	}
	h := c.heapSym(st, p.Key)
	var nh string
	if p.isCell() {
		nh = c.def("cell", c.heapSorts[p.Key], c.update(h, p.Path, v))
	} else {
		if len(p.Path) == 0 {
			nh = c.def("heap", c.heapSorts[p.Key], fmt.Sprintf("(store %s %s %s)", h, p.Base, v))
		} else {
			rootSort := strings.TrimSuffix(strings.TrimPrefix(c.heapSorts[p.Key], "(Array Int "), ")")
			r := c.def("obj", rootSort, fmt.Sprintf("(select %s %s)", h, p.Base))
			nh = c.def("heap", c.heapSorts[p.Key], fmt.Sprintf("(store %s %s %s)", h, p.Base, c.update(r, p.Path, v)))
		}
	}
	st.heaps[p.Key] = nh
}

// mkVal wraps a term of Go type t into a Val (attaching pointer info).
func (c *Ctx) mkVal(t types.Type, term string) Val {
	v := Val{T: t, S: term}
	if pt, ok := t.Underlying().(*types.Pointer); ok {
		key := c.heapKeyFor(pt.Elem())
		c.ensureHeapSort(key, pt.Elem())
		v.P = &Ptr{Key: key, Base: term, ET: pt.Elem()}
	}
	return v
}

func (c *Ctx) havocVal(t types.Type, why string) Val {
	if tup, ok := t.(*types.Tuple); ok {
		var es []Val
		for i := 0; i < tup.Len(); i++ {
			es = append(es, c.havocVal(tup.At(i).Type(), why))
		}
		return Val{T: t, Elems: es}
	}
	s := c.decl("hv_"+why, c.sorts.sortOf(t))
	c.assumeRange("true", t, s, 0)
	return c.mkVal(t, s)
}

// assumeRange adds range facts for integer-typed parts (INT mode) and basic
// well-formedness of slices.
func (c *Ctx) assumeRange(guard string, t types.Type, term string, depth int) {
	if depth > 3 {
		return
	}
	switch u := t.Underlying().(type) {
	case *types.Basic:
		if bits, signed, ok := intBits(u); ok && c.mode == INT {
			c.assume(guard, c.sorts.rangePred(term, bits, signed))
		}
	case *types.Struct:
		info := c.sorts.info(t)
		for i, ft := range info.ftypes {
			if needsRange(ft, c.mode, 0) {
				c.assumeRange(guard, ft, fmt.Sprintf("(%s %s)", info.fields[i], term), depth+1)
			}
		}
	case *types.Slice:
		c.assume(guard, c.sliceWF(term))
		// a slice that exists fits the amd64 user address space (2^47 bytes)
		if es := elemSize(u.Elem()); es >= 1 && es <= 1<<20 {
			if c.mode == BV {
				c.assume(guard, fmt.Sprintf("(bvsle (bvmul (s_cap %s) %s) #x0000800000000000)", term, bvLit(uint64(es))))
			} else {
				c.assume(guard, fmt.Sprintf("(<= (* (s_cap %s) %d) 140737488355328)", term, es))
			}
		}
	case *types.Pointer:
		c.assume(guard, fmt.Sprintf("(>= %s 0)", term))
	}
}

func needsRange(t types.Type, m Mode, depth int) bool {
	if depth > 3 {
		return false
	}
	switch u := t.Underlying().(type) {
	case *types.Basic:
		_, _, ok := intBits(u)
		return ok && m == INT
	case *types.Struct:
		for i := 0; i < u.NumFields(); i++ {
			if needsRange(u.Field(i).Type(), m, depth+1) {
				return true
			}
		}
	case *types.Slice, *types.Pointer:
		return true
	}
	return false
}

func (c *Ctx) sliceWF(s string) string {
	if c.mode == BV {
		return fmt.Sprintf("(and (bvsle #x0000000000000000 (s_off %[1]s)) (bvsle #x0000000000000000 (s_len %[1]s)) (bvsle (s_len %[1]s) (s_cap %[1]s)) (bvsle (s_cap %[1]s) #x0000ffffffffffff) (bvsle (s_off %[1]s) #x0000ffffffffffff) (>= (s_arr %[1]s) 0))", s)
	}
	return fmt.Sprintf("(and (<= 0 (s_off %[1]s)) (<= 0 (s_len %[1]s)) (<= (s_len %[1]s) (s_cap %[1]s)) (<= (s_cap %[1]s) 281474976710655) (<= (s_off %[1]s) 281474976710655) (>= (s_arr %[1]s) 0))", s)
}

func (c *Ctx) ite(cond, a, b string) string {
	if a == b {
		return a
	}
	if cond == "true" {
		return a
	}
	if cond == "false" {
		return b
	}
	return fmt.Sprintf("(ite %s %s %s)", cond, a, b)
}

func and(xs ...string) string {
	var ys []string
	for _, x := range xs {
		if x == "true" || x == "" {
			continue
		}
		if x == "false" {
			return "false"
		}
		ys = append(ys, x)
	}
	if len(ys) == 0 {
		return "true"
	}
	if len(ys) == 1 {
		return ys[0]
	}
	return "(and " + strings.Join(ys, " ") + ")"
}

func or(xs ...string) string {
	var ys []string
	for _, x := range xs {
		if x == "false" || x == "" {
			continue
		}
		if x == "true" {
			return "true"
		}
		ys = append(ys, x)
	}
	if len(ys) == 0 {
		return "false"
	}
	if len(ys) == 1 {
		return ys[0]
	}
	return "(or " + strings.Join(ys, " ") + ")"
}

func not(x string) string {
	if x == "true" {
		return "false"
	}
	if x == "false" {
		return "true"
	}
	return "(not " + x + ")"
}

// f64bits returns the IEEE bit pattern of float term x: an uninterpreted
// function constrained, per use, by to_fp(f64bits(x)) = x (ground instance of
// the defining axiom; a quantified axiom makes the solvers much slower).
func (c *Ctx) f64bits(x string) string {
	t := "(f64bits " + x + ")"
	c.assume("true", fmt.Sprintf("(= ((_ to_fp 11 53) %s) %s)", t, x))
	return t
}
