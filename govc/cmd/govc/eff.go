package main

// goeff: modular effect / frame obligations over the call graph of the real
// code (DESIGN §4.9).  Three families of obligations are generated from
// go/ssa of /repo's current tree and discharged structurally (back end
// "frame"):
//
//   !os        (C08)  a Go function registered with ComplyIoSafe reaches no
//                     OS primitive, except through a guard function whose own
//                     contract (proved by the SMT side) allows the primitive
//                     only when iosafe is not required;
//   !global    (C20)  no function outside package initialisation writes
//                     package-level state (or state reachable from it);
//   !intercept (C05)  no recover() can swallow a ContextTerminationError,
//                     except at the declared context boundaries.

import (
	"fmt"
	"go/constant"
	"go/token"
	"go/types"
	"sort"
	"strings"

	"golang.org/x/tools/go/ssa"
	"golang.org/x/tools/go/ssa/ssautil"
)

type effEdge struct {
	callee *ssa.Function
	site   ssa.Instruction
	how    string // static | invoke | funcvalue | ref
}

type EffGraph struct {
	eng       *Engine
	funcs     []*ssa.Function // all functions of the module (non-test), incl. anonymous
	inModule  map[*ssa.Function]bool
	bySig     map[string][]*ssa.Function // address-taken module functions by signature
	edges     map[*ssa.Function][]effEdge
	prims     map[*ssa.Function][]primUse // direct uses of OS primitives
	implCache map[string][]*ssa.Function
	namedTs   []types.Type
}

type primUse struct {
	name string
	site ssa.Instruction
}

// osPrimitive classifies a standard-library function as an operation that
// reaches outside the process (file system, processes, plugins, network).
func osPrimitive(fn *ssa.Function) (string, bool) {
	if fn == nil {
		return "", false
	}
	var pkg string
	if fn.Pkg != nil {
		pkg = fn.Pkg.Pkg.Path()
	} else if fn.Object() != nil && fn.Object().Pkg() != nil {
		pkg = fn.Object().Pkg().Path()
	}
	name := fn.Name()
	full := pkg + "." + name
	if recv := fn.Signature.Recv(); recv != nil {
		full = pkg + "." + strings.TrimPrefix(types.TypeString(recv.Type(), func(*types.Package) string { return "" }), "*") + "." + name
	}
	switch pkg {
	case "os":
		switch name {
		case "Open", "OpenFile", "Create", "CreateTemp", "Remove", "RemoveAll", "Rename", "Mkdir", "MkdirAll", "MkdirTemp",
			"ReadFile", "WriteFile", "ReadDir", "Chdir", "Chmod", "Chown", "Chtimes", "Link", "Symlink", "Truncate",
			"StartProcess", "Stat", "Lstat", "Readlink", "Setenv", "Unsetenv", "Clearenv", "NewFile", "Pipe", "DirFS", "CopyFS", "OpenInRoot", "OpenRoot":
			if fn.Signature.Recv() == nil {
				return full, true
			}
		}
		if strings.HasPrefix(full, "os.Process.") || strings.HasPrefix(full, "os.Root.") {
			return full, true
		}
	case "io/ioutil":
		switch name {
		case "ReadFile", "WriteFile", "ReadDir", "TempFile", "TempDir":
			return full, true
		}
	case "os/exec":
		switch name {
		case "Command", "CommandContext", "LookPath", "Start", "Run", "Output", "CombinedOutput":
			return full, true
		}
	case "plugin", "net", "net/http", "syscall", "os/signal", "net/rpc", "net/smtp", "net/url.never":
		if pkg == "syscall" {
			switch name {
			case "Getrusage", "Getpagesize", "Getpid", "Error", "Is", "Temporary", "Timeout", "Signal", "String", "Exited", "ExitStatus", "Signaled", "Stopped", "Continued", "CoreDump", "StopSignal", "TrapCause":
				return "", false
			}
		}
		return full, true
	}
	return "", false
}

func newEffGraph(eng *Engine) *EffGraph {
	g := &EffGraph{eng: eng, inModule: map[*ssa.Function]bool{}, bySig: map[string][]*ssa.Function{}, edges: map[*ssa.Function][]effEdge{},
		prims: map[*ssa.Function][]primUse{}, implCache: map[string][]*ssa.Function{}}
	all := ssautil.AllFunctions(eng.prog)
	for fn := range all {
		if fn.Pkg == nil && fn.Parent() == nil {
			// synthetic wrappers / generic instances: keep those whose object is in the module
			if fn.Object() == nil || fn.Object().Pkg() == nil || !strings.HasPrefix(fn.Object().Pkg().Path(), eng.modPath) {
				continue
			}
		} else {
			p := fn
			for p.Parent() != nil {
				p = p.Parent()
			}
			if p.Pkg == nil || !strings.HasPrefix(p.Pkg.Pkg.Path(), eng.modPath) {
				continue
			}
		}
		if pos := fn.Pos(); pos.IsValid() && strings.HasSuffix(eng.fset.Position(pos).Filename, "_test.go") {
			continue
		}
		g.funcs = append(g.funcs, fn)
		g.inModule[fn] = true
	}
	sort.Slice(g.funcs, func(i, j int) bool { return effName(g.funcs[i]) < effName(g.funcs[j]) })
	// named types of the module (for interface dispatch)
	for _, sp := range eng.prog.AllPackages() {
		if !strings.HasPrefix(sp.Pkg.Path(), eng.modPath) {
			continue
		}
		for _, m := range sp.Members {
			if tn, ok := m.(*ssa.Type); ok {
				t := tn.Type()
				if _, isIface := t.Underlying().(*types.Interface); isIface {
					continue
				}
				g.namedTs = append(g.namedTs, t, types.NewPointer(t))
			}
		}
	}
	// address-taken functions
	for _, fn := range g.funcs {
		for _, b := range fn.Blocks {
			for _, in := range b.Instrs {
				var ops []*ssa.Value
				ops = in.Operands(ops)
				for i, op := range ops {
					if op == nil || *op == nil {
						continue
					}
					var f *ssa.Function
					switch v := (*op).(type) {
					case *ssa.Function:
						f = v
					case *ssa.MakeClosure:
						f, _ = v.Fn.(*ssa.Function)
					}
					if f == nil {
						continue
					}
					if call, ok := in.(ssa.CallInstruction); ok && i == 0 && call.Common().Value == *op && !call.Common().IsInvoke() {
						continue // direct call, not address-taken
					}
					if _, ok := in.(*ssa.MakeClosure); ok && i == 0 {
						continue
					}
					g.addTaken(f)
				}
			}
		}
	}
	// package-level function values (var x = f) in initialisers are covered by init bodies above
	return g
}

func (g *EffGraph) addTaken(f *ssa.Function) {
	k := sigKey(f.Signature)
	for _, x := range g.bySig[k] {
		if x == f {
			return
		}
	}
	g.bySig[k] = append(g.bySig[k], f)
}

func sigKey(s *types.Signature) string {
	// receiver-less signature string
	ns := types.NewSignatureType(nil, nil, nil, s.Params(), s.Results(), s.Variadic())
	return types.TypeString(ns, func(p *types.Package) string { return p.Path() })
}

func effName(fn *ssa.Function) string {
	if fn == nil {
		return "?"
	}
	if fn.Parent() != nil {
		return effName(fn.Parent()) + "$" + strings.TrimPrefix(fn.Name(), fn.Parent().Name()+"$")
	}
	return fnKey(fn)
}

// implementers of an interface method among module types.
func (g *EffGraph) implementers(iface *types.Interface, m *types.Func) []*ssa.Function {
	key := m.FullName() + "|" + iface.String()
	if r, ok := g.implCache[key]; ok {
		return r
	}
	var out []*ssa.Function
	seen := map[*ssa.Function]bool{}
	for _, t := range g.namedTs {
		if !types.Implements(t, iface) {
			continue
		}
		sel := g.eng.prog.MethodSets.MethodSet(t).Lookup(m.Pkg(), m.Name())
		if sel == nil {
			continue
		}
		if f := g.eng.prog.MethodValue(sel); f != nil && !seen[f] {
			seen[f] = true
			out = append(out, f)
		}
	}
	g.implCache[key] = out
	return out
}

func isGoFunctionFunc(t types.Type) bool {
	n, ok := t.(*types.Named)
	return ok && n.Obj().Name() == "GoFunctionFunc" && n.Obj().Pkg() != nil && strings.HasSuffix(n.Obj().Pkg().Path(), "/runtime")
}

// out-edges of fn: static calls, interface dispatch within the module,
// function-value calls (resolved to address-taken functions of the same
// signature), and references to functions/closures (which may be called by
// anyone the value is handed to).
func (g *EffGraph) out(fn *ssa.Function) []effEdge {
	if e, ok := g.edges[fn]; ok {
		return e
	}
	var es []effEdge
	for _, b := range fn.Blocks {
		for _, in := range b.Instrs {
			if call, ok := in.(ssa.CallInstruction); ok {
				cc := call.Common()
				if cc.IsInvoke() {
					if it, ok := cc.Value.Type().Underlying().(*types.Interface); ok {
						for _, f := range g.implementers(it, cc.Method) {
							es = append(es, effEdge{f, in, "invoke"})
						}
					}
				} else if callee := cc.StaticCallee(); callee != nil {
					es = append(es, effEdge{callee, in, "static"})
					if name, ok := osPrimitive(callee); ok {
						g.prims[fn] = append(g.prims[fn], primUse{name, in})
					}
				} else if _, isBuiltin := cc.Value.(*ssa.Builtin); !isBuiltin {
					if isGoFunctionFunc(cc.Value.Type()) {
						// the gate: Go functions are entered only through
						// GoCont.RunInThread, which checks the flags first
						continue
					}
					if sig, ok := cc.Value.Type().Underlying().(*types.Signature); ok {
						for _, f := range g.bySig[sigKey(sig)] {
							es = append(es, effEdge{f, in, "funcvalue"})
						}
					}
				}
			}
			// references
			var ops []*ssa.Value
			ops = in.Operands(ops)
			for _, op := range ops {
				if op == nil || *op == nil {
					continue
				}
				switch v := (*op).(type) {
				case *ssa.MakeClosure:
					if f, ok := v.Fn.(*ssa.Function); ok {
						es = append(es, effEdge{f, in, "ref"})
					}
				}
			}
			if mc, ok := in.(*ssa.MakeClosure); ok {
				if f, ok := mc.Fn.(*ssa.Function); ok {
					es = append(es, effEdge{f, in, "ref"})
				}
			}
		}
	}
	g.edges[fn] = es
	return es
}

// reach explores from root; stop(fn) cuts the traversal below fn.  It returns
// the first function satisfying bad together with the call chain.
func (g *EffGraph) reach(root *ssa.Function, stop func(*ssa.Function) bool, bad func(*ssa.Function) (string, bool)) (string, []string, int) {
	type item struct {
		fn   *ssa.Function
		prev int
	}
	q := []item{{root, -1}}
	seen := map[*ssa.Function]bool{root: true}
	for i := 0; i < len(q); i++ {
		fn := q[i].fn
		if why, isBad := bad(fn); isBad {
			var chain []string
			for j := i; j >= 0; j = q[j].prev {
				chain = append([]string{effName(q[j].fn)}, chain...)
			}
			return why, chain, len(seen)
		}
		if stop != nil && stop(fn) && fn != root {
			continue
		}
		if !g.inModule[fn] {
			continue // standard-library bodies are not explored: classified by the primitive table only
		}
		for _, e := range g.out(fn) {
			if seen[e.callee] {
				continue
			}
			seen[e.callee] = true
			q = append(q, item{e.callee, i})
		}
	}
	return "", nil, len(seen)
}

// ---------------------------------------------------------------------------
// Registration sites: which Go functions are declared with which flags
// ---------------------------------------------------------------------------

type registration struct {
	fn    *ssa.Function // the Go function body (nil if unresolved)
	flags uint64
	site  token.Position
	in    *ssa.Function
	note  string
	name  string // Lua-visible name when known
}

func constUint(v ssa.Value) (uint64, bool) {
	c, ok := v.(*ssa.Const)
	if !ok || c.Value == nil {
		return 0, false
	}
	if c.Value.Kind() != constant.Int {
		return 0, false
	}
	u, ok := constant.Uint64Val(c.Value)
	return u, ok
}

// goFuncBody resolves a value of type *GoFunction to the function it wraps.
func (g *EffGraph) goFuncBody(v ssa.Value, depth int) (*ssa.Function, string, bool) {
	if depth > 6 {
		return nil, "", false
	}
	switch x := v.(type) {
	case *ssa.Call:
		callee := x.Call.StaticCallee()
		if callee == nil {
			return nil, "", false
		}
		var fv ssa.Value
		var nameV ssa.Value
		switch callee.Name() {
		case "SetEnvGoFunc": // (r, tbl, name, f, nArgs, hasEtc)
			if len(x.Call.Args) >= 4 {
				fv, nameV = x.Call.Args[3], x.Call.Args[2]
			}
		case "NewGoFunction": // (f, name, nArgs, hasEtc)
			if len(x.Call.Args) >= 2 {
				fv, nameV = x.Call.Args[0], x.Call.Args[1]
			}
		}
		if fv == nil {
			return nil, "", false
		}
		name := ""
		if c, ok := nameV.(*ssa.Const); ok && c.Value != nil && c.Value.Kind() == constant.String {
			name = constant.StringVal(c.Value)
		}
		f := funcOf(fv)
		return f, name, f != nil
	case *ssa.UnOp: // load of a package-level *GoFunction
		if x.Op == token.MUL {
			if gl, ok := x.X.(*ssa.Global); ok {
				// find the initialising store in init
				if init := gl.Pkg.Func("init"); init != nil {
					for _, b := range init.Blocks {
						for _, in := range b.Instrs {
							if st, ok := in.(*ssa.Store); ok && st.Addr == gl {
								return g.goFuncBody(st.Val, depth+1)
							}
						}
					}
				}
			}
		}
	case *ssa.Phi:
		for _, e := range x.Edges {
			if f, n, ok := g.goFuncBody(e, depth+1); ok {
				return f, n, ok
			}
		}
	}
	return nil, "", false
}

func funcOf(v ssa.Value) *ssa.Function {
	switch x := v.(type) {
	case *ssa.UnOp:
		if gl, ok := x.X.(*ssa.Global); ok && x.Op == token.MUL {
			if init := gl.Pkg.Func("init"); init != nil {
				for _, b := range init.Blocks {
					for _, in := range b.Instrs {
						if st, ok := in.(*ssa.Store); ok && st.Addr == gl {
							return funcOf(st.Val)
						}
					}
				}
			}
		}
		return nil
	case *ssa.Call:
		// a call to a function that returns a closure it creates
		if callee := x.Call.StaticCallee(); callee != nil {
			var found *ssa.Function
			for _, b := range callee.Blocks {
				for _, in := range b.Instrs {
					if ret, ok := in.(*ssa.Return); ok && len(ret.Results) == 1 {
						f := funcOf(ret.Results[0])
						if f == nil || (found != nil && found != f) {
							return nil
						}
						found = f
					}
				}
			}
			return found
		}
		return nil
	case *ssa.Function:
		return x
	case *ssa.MakeClosure:
		f, _ := x.Fn.(*ssa.Function)
		return f
	case *ssa.ChangeType:
		return funcOf(x.X)
	case *ssa.MakeInterface:
		return funcOf(x.X)
	}
	return nil
}

// registrations extracts every SolemnlyDeclareCompliance site of the module.
func (g *EffGraph) registrations() []registration {
	var out []registration
	for _, fn := range g.funcs {
		for _, b := range fn.Blocks {
			for _, in := range b.Instrs {
				call, ok := in.(*ssa.Call)
				if !ok {
					continue
				}
				callee := call.Call.StaticCallee()
				if callee == nil || callee.Name() != "SolemnlyDeclareCompliance" || callee.Pkg == nil || !strings.HasSuffix(callee.Pkg.Pkg.Path(), "/runtime") {
					continue
				}
				pos := g.eng.fset.Position(call.Pos())
				if callee.Signature.Recv() != nil {
					// f.SolemnlyDeclareCompliance(flags)
					flags, okf := constUint(call.Call.Args[1])
					body, name, okb := g.goFuncBody(call.Call.Args[0], 0)
					r := registration{fn: body, flags: flags, site: pos, in: fn, name: name}
					if !okf {
						r.note = "flags are not a compile-time constant"
					}
					if !okb {
						r.note += " function value not resolvable"
					}
					if fn.Name() == "SolemnlyDeclareCompliance" {
						continue // the variadic helper itself
					}
					out = append(out, r)
					continue
				}
				flags, okf := constUint(call.Call.Args[0])
				// variadic slice: Slice of Alloc with element stores
				var elems []ssa.Value
				resolved := false
				if len(call.Call.Args) >= 2 {
					switch sl := call.Call.Args[1].(type) {
					case *ssa.Slice:
						if al, ok := sl.X.(*ssa.Alloc); ok {
							resolved = true
							for _, ref := range *al.Referrers() {
								if ia, ok := ref.(*ssa.IndexAddr); ok {
									for _, r2 := range *ia.Referrers() {
										if st, ok := r2.(*ssa.Store); ok && st.Addr == ia {
											elems = append(elems, st.Val)
										}
									}
								}
							}
						}
					case *ssa.Const:
						resolved = true // nil slice
					}
				}
				if !resolved {
					out = append(out, registration{flags: flags, site: pos, in: fn, note: "function list not resolvable"})
					continue
				}
				for _, ev := range elems {
					body, name, okb := g.goFuncBody(ev, 0)
					r := registration{fn: body, flags: flags, site: g.eng.fset.Position(ev.Pos()), in: fn, name: name}
					if !r.site.IsValid() {
						r.site = pos
					}
					if !okf {
						r.note = "flags are not a compile-time constant"
					}
					if !okb {
						r.note += " function value not resolvable"
					}
					out = append(out, r)
				}
			}
		}
	}
	sort.Slice(out, func(i, j int) bool {
		if out[i].site.Filename != out[j].site.Filename {
			return out[i].site.Filename < out[j].site.Filename
		}
		return out[i].site.Offset < out[j].site.Offset
	})
	return out
}

// ---------------------------------------------------------------------------
// Effect obligations
// ---------------------------------------------------------------------------

type EffObl struct {
	Name    string
	Kind    string
	Desc    string
	OK      bool
	Witness string
	Pos     string
	// Undecided: the structural check could not decide this obligation (reason);
	// accepted only when listed as skipped on the reference tree.
	Undecided string
}

func (g *EffGraph) flagConst(name string) uint64 {
	sp := g.eng.spkgs[g.eng.modPath+"/runtime"]
	if sp == nil {
		return 0
	}
	if c, ok := sp.Members[name].(*ssa.NamedConst); ok {
		u, _ := constant.Uint64Val(c.Value.Value)
		return u
	}
	return 0
}

// guard functions: declared in contracts with `effects os-guarded`; their
// bodies are verified by govc (the primitive is reached only when iosafe is
// not required), so the traversal stops there.
func (g *EffGraph) guards() map[*ssa.Function]bool {
	out := map[*ssa.Function]bool{}
	for _, ct := range g.eng.all {
		for _, cl := range ct.byKind("effects") {
			if strings.Contains(cl.Text, "os-guarded") || strings.Contains(cl.Text, "os-release") {
				if fn := g.eng.findFunc(ct.PkgPath, ct.Key); fn != nil {
					out[fn] = true
				}
			}
		}
	}
	return out
}

func relPos(eng *Engine, p token.Position) string {
	return fmt.Sprintf("%s:%d", strings.TrimPrefix(p.Filename, eng.repo+"/"), p.Line)
}

// ioSafeObligations: C08 reachability.
func (g *EffGraph) ioSafeObligations() []*EffObl {
	var out []*EffObl
	iosafe := g.flagConst("ComplyIoSafe")
	guards := g.guards()
	regs := g.registrations()
	if iosafe == 0 {
		out = append(out, &EffObl{Name: "effects/attach:ComplyIoSafe", Kind: "attach", Desc: "runtime.ComplyIoSafe constant found", OK: false})
		return out
	}
	nIo := 0
	seenFn := map[*ssa.Function]bool{}
	for _, r := range regs {
		if r.note != "" {
			out = append(out, &EffObl{Name: fmt.Sprintf("%s/registration@%s", effName(r.in), relPos(g.eng, r.site)), Kind: "attach",
				Desc: "registration site resolvable (flags constant, function value known)", OK: false, Witness: strings.TrimSpace(r.note), Pos: relPos(g.eng, r.site)})
			continue
		}
		if r.flags&iosafe == 0 || r.fn == nil {
			continue
		}
		nIo++
		if seenFn[r.fn] {
			continue
		}
		seenFn[r.fn] = true
		why, chain, n := g.reach(r.fn, func(f *ssa.Function) bool { return guards[f] }, func(f *ssa.Function) (string, bool) {
			if guards[f] || !g.inModule[f] {
				return "", false
			}
			if ps := g.prims[f]; len(ps) > 0 {
				_ = g.out(f)
				return ps[0].name + " at " + relPos(g.eng, g.eng.fset.Position(ps[0].site.Pos())), true
			}
			g.out(f) // populate prims
			if ps := g.prims[f]; len(ps) > 0 {
				return ps[0].name + " at " + relPos(g.eng, g.eng.fset.Position(ps[0].site.Pos())), true
			}
			return "", false
		})
		o := &EffObl{Name: effName(r.fn) + "/effect:!os", Kind: "effect", Pos: relPos(g.eng, r.site),
			Desc: fmt.Sprintf("registered iosafe (Lua name %q): reaches no OS primitive except through guard functions (%d functions explored)", r.name, n)}
		if why == "" {
			o.OK = true
		} else {
			o.Witness = "reaches " + why + " via " + strings.Join(chain, " -> ")
		}
		out = append(out, o)
	}
	out = append(out, &EffObl{Name: "effects/iosafe-registrations-found", Kind: "cover", Desc: fmt.Sprintf("vacuity guard: %d registration sites resolved, %d declare iosafe, %d guard functions", len(regs), nIo, len(guards)), OK: nIo > 0 && len(guards) > 0})
	return out
}

// ---------------------------------------------------------------------------
// C20: no writes to package-level state outside initialisation
// ---------------------------------------------------------------------------

type globalRoot struct {
	g    *ssa.Global
	kind string // "addr" address of the variable itself, "reach" a reference loaded from it
}

// rootOf traces an address / reference value back to a package-level variable.
var effModPath = "github.com/arnodel/golua"

func rootOf(v ssa.Value, depth int) *globalRoot {
	if depth > 12 {
		return nil
	}
	switch x := v.(type) {
	case *ssa.Global:
		if x.Pkg == nil || !strings.HasPrefix(x.Pkg.Pkg.Path(), effModPath) {
			return nil // standard-library variables (os.Stdout, time.Local …) are not golua state
		}
		return &globalRoot{x, "addr"}
	case *ssa.FieldAddr:
		return rootOf(x.X, depth+1)
	case *ssa.IndexAddr:
		return rootOf(x.X, depth+1)
	case *ssa.Slice:
		return rootOf(x.X, depth+1)
	case *ssa.ChangeType:
		return rootOf(x.X, depth+1)
	case *ssa.Convert:
		return rootOf(x.X, depth+1)
	case *ssa.UnOp:
		if x.Op == token.MUL {
			if !isRefType(x.Type()) {
				return nil
			}
			if r := rootOf(x.X, depth+1); r != nil {
				return &globalRoot{r.g, "reach"}
			}
		}
	case *ssa.Field:
		if isRefType(x.Type()) {
			if r := rootOf(x.X, depth+1); r != nil {
				return &globalRoot{r.g, "reach"}
			}
		}
	case *ssa.Phi:
		for _, e := range x.Edges {
			if e == v {
				continue
			}
			if r := rootOf(e, depth+1); r != nil {
				return r
			}
		}
	case *ssa.Lookup:
		if isRefType(x.Type()) {
			if r := rootOf(x.X, depth+1); r != nil {
				return &globalRoot{r.g, "reach"}
			}
		}
	case *ssa.Extract:
		if lk, ok := x.Tuple.(*ssa.Lookup); ok && x.Index == 0 && isRefType(x.Type()) {
			if r := rootOf(lk.X, depth+1); r != nil {
				return &globalRoot{r.g, "reach"}
			}
		}
	}
	return nil
}

func isRefType(t types.Type) bool {
	switch t.Underlying().(type) {
	case *types.Pointer, *types.Slice, *types.Map, *types.Chan:
		return true
	}
	return false
}

// writesParam: does fn (transitively, through static callees) store through a
// pointer/slice/map derived from parameter i?  Computed on demand with a
// depth bound; unknown callees (no body) are assumed to write through pointer
// receivers and pointer arguments unless listed as read-only.
type paramWrites struct {
	g     *EffGraph
	cache map[*ssa.Function][]int8 // 0 unknown, 1 no, 2 yes
	stack map[*ssa.Function]bool
}

var readOnlyExternal = map[string]bool{
	"fmt.Sprintf": true, "fmt.Errorf": true, "fmt.Sprint": true, "fmt.Sprintln": true, "fmt.Fprintf": true, "fmt.Fprint": true, "fmt.Fprintln": true,
	"errors.New": true, "errors.Is": true, "errors.As": true, "errors.Unwrap": true,
	"strings.Join": true, "strings.Builder.String": true, "bytes.Equal": true, "bytes.Buffer.String": true, "bytes.Buffer.Bytes": true, "bytes.Buffer.Len": true,
	"sort.SearchInts": true, "sort.Search": true, "regexp.Regexp.ReplaceAllFunc": true, "regexp.Regexp.ReplaceAll": true, "regexp.Regexp.Match": true,
	"regexp.Regexp.FindSubmatch": true, "regexp.Regexp.FindStringSubmatch": true, "regexp.Regexp.MatchString": true, "regexp.Regexp.FindSubmatchIndex": true,
	"regexp.Regexp.FindIndex": true, "regexp.Regexp.Find": true, "regexp.Regexp.FindAllSubmatchIndex": true, "regexp.Regexp.FindStringSubmatchIndex": true,
	"regexp.Regexp.ReplaceAllString": true, "regexp.Regexp.ReplaceAllStringFunc": true, "regexp.Regexp.FindString": true, "regexp.Regexp.FindAllString": true,
	"reflect.TypeOf": true, "reflect.ValueOf": true, "time.Now": true,
	"sync.Once.Do": false,
}

func extName(fn *ssa.Function) string {
	pkg := ""
	if fn.Pkg != nil {
		pkg = fn.Pkg.Pkg.Path()
	} else if fn.Object() != nil && fn.Object().Pkg() != nil {
		pkg = fn.Object().Pkg().Path()
	}
	if recv := fn.Signature.Recv(); recv != nil {
		tn := strings.TrimPrefix(types.TypeString(recv.Type(), func(*types.Package) string { return "" }), "*")
		return pkg + "." + tn + "." + fn.Name()
	}
	return pkg + "." + fn.Name()
}

func (pw *paramWrites) writes(fn *ssa.Function, i int, depth int) bool {
	if fn == nil {
		return true
	}
	if len(fn.Blocks) == 0 || !pw.g.inModule[fn] {
		if readOnlyExternal[extName(fn)] || strings.HasPrefix(extName(fn), "regexp.Regexp.") {
			return false // a compiled Regexp is documented safe for concurrent use
		}
		// external: value receivers and non-reference parameters cannot be written through
		if i < len(fn.Params) {
			return isRefType(fn.Params[i].Type())
		}
		sig := fn.Signature
		idx := i
		if sig.Recv() != nil {
			if idx == 0 {
				return isRefType(sig.Recv().Type())
			}
			idx--
		}
		if idx < sig.Params().Len() {
			return isRefType(sig.Params().At(idx).Type())
		}
		return true
	}
	if i >= len(fn.Params) {
		return true
	}
	if c, ok := pw.cache[fn]; ok && c[i] != 0 {
		return c[i] == 2
	}
	if depth > 8 || pw.stack[fn] {
		return false // recursion: optimistic on the cycle, the outer computation decides
	}
	pw.stack[fn] = true
	defer delete(pw.stack, fn)
	p := fn.Params[i]
	res := false
	if isRefType(p.Type()) {
		derived := map[ssa.Value]bool{p: true}
		// forward closure over address computations / loads of references
		changed := true
		for changed {
			changed = false
			for _, b := range fn.Blocks {
				for _, in := range b.Instrs {
					v, ok := in.(ssa.Value)
					if !ok || derived[v] {
						continue
					}
					switch x := in.(type) {
					case *ssa.FieldAddr:
						if derived[x.X] {
							derived[v], changed = true, true
						}
					case *ssa.IndexAddr:
						if derived[x.X] {
							derived[v], changed = true, true
						}
					case *ssa.Slice:
						if derived[x.X] {
							derived[v], changed = true, true
						}
					case *ssa.ChangeType:
						if derived[x.X] {
							derived[v], changed = true, true
						}
					case *ssa.UnOp:
						if x.Op == token.MUL && derived[x.X] && isRefType(x.Type()) {
							derived[v], changed = true, true
						}
					case *ssa.Phi:
						for _, e := range x.Edges {
							if derived[e] {
								derived[v], changed = true, true
							}
						}
					}
				}
			}
		}
	scan:
		for _, b := range fn.Blocks {
			for _, in := range b.Instrs {
				switch x := in.(type) {
				case *ssa.Store:
					if derived[x.Addr] {
						res = true
						break scan
					}
				case *ssa.MapUpdate:
					if derived[x.Map] {
						res = true
						break scan
					}
				case ssa.CallInstruction:
					cc := x.Common()
					args := cc.Args
					if cc.IsInvoke() {
						if derived[cc.Value] {
							res = true // interface method on a derived value: unknown
							break scan
						}
						for _, a := range args {
							if derived[a] {
								res = true
								break scan
							}
						}
						continue
					}
					if bi, ok := cc.Value.(*ssa.Builtin); ok {
						switch bi.Name() {
						case "copy", "clear", "delete":
							if len(args) > 0 && derived[args[0]] {
								res = true
								break scan
							}
						case "append":
							if len(args) > 0 && derived[args[0]] {
								res = true // may write into spare capacity
								break scan
							}
						}
						continue
					}
					callee := cc.StaticCallee()
					for ai, a := range args {
						if !derived[a] {
							continue
						}
						if callee == nil || pw.writes(callee, ai, depth+1) {
							res = true
							break scan
						}
					}
				}
			}
		}
	}
	c := pw.cache[fn]
	if c == nil {
		c = make([]int8, len(fn.Params))
		pw.cache[fn] = c
	}
	if res {
		c[i] = 2
	} else {
		c[i] = 1
	}
	return res
}

func isInitFunc(fn *ssa.Function) bool {
	for p := fn; p != nil; p = p.Parent() {
		if p.Name() == "init" || strings.HasPrefix(p.Name(), "init#") {
			return true
		}
	}
	return false
}

// globalWriteObligations: one obligation per module function (outside init,
// tests, main/example programs): it performs no write to package-level state.
func (g *EffGraph) globalWriteObligations(scope func(pkgPath string) bool) []*EffObl {
	var out []*EffObl
	pw := &paramWrites{g: g, cache: map[*ssa.Function][]int8{}, stack: map[*ssa.Function]bool{}}
	globalStatePrims := map[string]string{
		"math/rand.Seed": "process-wide random source", "math/rand.Int63": "process-wide random source", "math/rand.Float64": "process-wide random source",
		"math/rand.Intn": "process-wide random source", "math/rand.Int63n": "process-wide random source", "math/rand.Int": "process-wide random source",
		"math/rand.Int31n": "process-wide random source", "math/rand.Uint64": "process-wide random source", "math/rand.Perm": "process-wide random source",
		"math/rand.Shuffle": "process-wide random source", "math/rand.Int31": "process-wide random source", "math/rand.Uint32": "process-wide random source",
		"os.Setenv": "process environment", "os.Unsetenv": "process environment", "os.Chdir": "process working directory", "os.Clearenv": "process environment",
		"runtime/debug.SetGCPercent": "process-wide GC setting", "runtime/debug.SetMaxStack": "process-wide setting", "runtime/debug.SetMemoryLimit": "process-wide setting",
		"runtime.GOMAXPROCS": "process-wide setting",
	}
	n := 0
	for _, fn := range g.funcs {
		root := fn
		for root.Parent() != nil {
			root = root.Parent()
		}
		if root.Pkg == nil || !scope(root.Pkg.Pkg.Path()) || isInitFunc(fn) || len(fn.Blocks) == 0 {
			continue
		}
		if fn.Synthetic != "" && fn.Parent() == nil {
			continue
		}
		n++
		var wit []string
		add := func(in ssa.Instruction, what string) {
			wit = append(wit, fmt.Sprintf("%s at %s", what, relPos(g.eng, g.eng.fset.Position(in.Pos()))))
		}
		for _, b := range fn.Blocks {
			for _, in := range b.Instrs {
				switch x := in.(type) {
				case *ssa.Store:
					if r := rootOf(x.Addr, 0); r != nil {
						add(in, "store to package-level "+r.g.Pkg.Pkg.Name()+"."+r.g.Name())
					}
				case *ssa.MapUpdate:
					if r := rootOf(x.Map, 0); r != nil {
						add(in, "map update of package-level "+r.g.Pkg.Pkg.Name()+"."+r.g.Name())
					}
				case ssa.CallInstruction:
					cc := x.Common()
					callee := cc.StaticCallee()
					if callee != nil {
						if why, ok := globalStatePrims[extName(callee)]; ok {
							add(in, "call to "+extName(callee)+" ("+why+")")
						}
					}
					if bi, ok := cc.Value.(*ssa.Builtin); ok {
						switch bi.Name() {
						case "copy", "clear", "delete", "append":
							if len(cc.Args) > 0 {
								if r := rootOf(cc.Args[0], 0); r != nil && bi.Name() != "append" {
									add(in, bi.Name()+" into package-level "+r.g.Pkg.Pkg.Name()+"."+r.g.Name())
								}
							}
						}
						continue
					}
					args := cc.Args
					if cc.IsInvoke() {
						if r := rootOf(cc.Value, 0); r != nil && r.kind == "addr" {
							add(in, "interface method called on address of package-level "+r.g.Name())
						}
						continue
					}
					for ai, a := range args {
						if !isRefType(a.Type()) {
							continue
						}
						r := rootOf(a, 0)
						if r == nil {
							// implicit slice of a variadic call: look at the elements
							if sl, ok := a.(*ssa.Slice); ok {
								if al, ok := sl.X.(*ssa.Alloc); ok && al.Referrers() != nil {
									for _, ref := range *al.Referrers() {
										ia, ok := ref.(*ssa.IndexAddr)
										if !ok || ia.Referrers() == nil {
											continue
										}
										for _, r2 := range *ia.Referrers() {
											if st, ok := r2.(*ssa.Store); ok && st.Addr == ia && isRefType(st.Val.Type()) {
												if er := rootOf(st.Val, 0); er != nil && r == nil {
													r = er
												}
											}
										}
									}
								}
							}
						}
						if r == nil {
							continue
						}
						if callee == nil {
							add(in, "package-level "+r.g.Pkg.Pkg.Name()+"."+r.g.Name()+" passed to a dynamic call")
							continue
						}
						if pw.writes(callee, ai, 0) {
							add(in, "package-level "+r.g.Pkg.Pkg.Name()+"."+r.g.Name()+" passed to "+effName(callee)+", which writes through that parameter")
						}
					}
				case *ssa.MakeClosure:
					for _, bv := range x.Bindings {
						if r := rootOf(bv, 0); r != nil && r.kind == "addr" {
							_ = r // captured address of a global: the closure body is checked on its own (its FreeVar loads are not rooted) — record conservatively
							add(in, "address of package-level "+r.g.Name()+" captured by a closure")
						}
					}
				}
			}
		}
		o := &EffObl{Name: effName(fn) + "/effect:!global", Kind: "effect", Desc: "no write to package-level state (store, map update, global-state primitive, or passing it to a writer)",
			Pos: relPos(g.eng, g.eng.fset.Position(fn.Pos()))}
		if len(wit) == 0 {
			o.OK = true
		} else {
			sort.Strings(wit)
			o.Witness = strings.Join(wit, "; ")
		}
		out = append(out, o)
	}
	out = append(out, &EffObl{Name: "effects/global-scope-nonempty", Kind: "cover", Desc: fmt.Sprintf("vacuity guard: %d functions in scope", n), OK: n > 100})
	return out
}

// ---------------------------------------------------------------------------
// C05: recover() sites cannot swallow a ContextTerminationError
// ---------------------------------------------------------------------------

func (g *EffGraph) isCTE(t types.Type) bool {
	n, ok := t.(*types.Named)
	return ok && n.Obj().Name() == "ContextTerminationError"
}

// canTerminate: fn (transitively) may raise a ContextTerminationError.
func (g *EffGraph) terminates(fn *ssa.Function) (string, []string) {
	why, chain, _ := g.reach(fn, nil, func(f *ssa.Function) (string, bool) {
		for _, b := range f.Blocks {
			for _, in := range b.Instrs {
				if p, ok := in.(*ssa.Panic); ok {
					if mi, ok := p.X.(*ssa.MakeInterface); ok && g.isCTE(mi.X.Type()) {
						return "panic(ContextTerminationError) at " + relPos(g.eng, g.eng.fset.Position(p.Pos())), true
					}
				}
			}
		}
		return "", false
	})
	return why, chain
}

// swallowPaths analyses the function containing a recover() call: on which
// paths can a recovered ContextTerminationError reach a normal return?
// Returns "" if every path either re-panics the value or has established that
// the value is nil / of a concrete type other than ContextTerminationError.
func (g *EffGraph) swallows(fn *ssa.Function, rec *ssa.Call) string {
	// facts per block: safe == the recovered value is known not to be a live CTE
	type state struct{ safe bool }
	// values derived from r
	isR := func(v ssa.Value) bool {
		for depth := 0; depth < 4; depth++ {
			if v == rec {
				return true
			}
			switch x := v.(type) {
			case *ssa.ChangeInterface:
				v = x.X
			case *ssa.Phi:
				// phi of r with nil constants (r = nil reassignment) is handled by edge facts
				return false
			default:
				return false
			}
		}
		return false
	}
	// condition classification: returns (safeOnTrue, safeOnFalse)
	classify := func(cond ssa.Value) (bool, bool) {
		switch c := cond.(type) {
		case *ssa.BinOp:
			if c.Op == token.NEQ || c.Op == token.EQL {
				var other ssa.Value
				if isR(c.X) {
					other = c.Y
				} else if isR(c.Y) {
					other = c.X
				}
				if other == nil {
					return false, false
				}
				if k, ok := other.(*ssa.Const); ok && k.Value == nil {
					// r != nil : false branch safe ; r == nil : true branch safe
					if c.Op == token.NEQ {
						return false, true
					}
					return true, false
				}
				// comparison with some other value: equal ⇒ r has that value's dynamic type
				ot := other.Type()
				if mi, ok := other.(*ssa.MakeInterface); ok {
					ot = mi.X.Type()
				} else if u, ok := other.(*ssa.UnOp); ok && u.Op == token.MUL {
					if gl, ok := u.X.(*ssa.Global); ok {
						// package-level sentinel: find its initial dynamic type
						if init := gl.Pkg.Func("init"); init != nil {
							for _, b := range init.Blocks {
								for _, in := range b.Instrs {
									if st, ok := in.(*ssa.Store); ok && st.Addr == gl {
										if mi, ok := st.Val.(*ssa.MakeInterface); ok {
											ot = mi.X.Type()
										}
									}
								}
							}
						}
					}
				}
				if _, isIface := ot.Underlying().(*types.Interface); !isIface && !g.isCTE(ot) {
					if c.Op == token.EQL {
						return true, false
					}
					return false, true
				}
			}
		case *ssa.Extract:
			if ta, ok := c.Tuple.(*ssa.TypeAssert); ok && c.Index == 1 && isR(ta.X) {
				if _, isIface := ta.AssertedType.Underlying().(*types.Interface); !isIface && !g.isCTE(ta.AssertedType) {
					return true, false // ok ⇒ concrete non-CTE type
				}
				if g.isCTE(ta.AssertedType) {
					return false, true // !ok ⇒ not a CTE
				}
			}
		}
		return false, false
	}
	in := map[*ssa.BasicBlock]*state{}
	start := rec.Block()
	in[start] = &state{safe: false}
	work := []*ssa.BasicBlock{start}
	var bad string
	visited := map[*ssa.BasicBlock]int{}
	for len(work) > 0 && bad == "" {
		b := work[len(work)-1]
		work = work[:len(work)-1]
		visited[b]++
		if visited[b] > 8 {
			continue
		}
		st := in[b]
		last := b.Instrs[len(b.Instrs)-1]
		push := func(s *ssa.BasicBlock, safe bool) {
			if cur, ok := in[s]; ok {
				if cur.safe && !safe {
					cur.safe = false
					work = append(work, s)
				}
				return
			}
			in[s] = &state{safe: safe}
			work = append(work, s)
		}
		// type switch on r (switch r.(type)) compiles to TypeAssert chains: handled by classify
		switch x := last.(type) {
		case *ssa.Return:
			if !st.safe {
				bad = "a recovered value that may be a ContextTerminationError reaches the return at " + relPos(g.eng, g.eng.fset.Position(x.Pos()))
			}
		case *ssa.Panic:
			// re-panic: fine
		case *ssa.If:
			t, f := classify(x.Cond)
			push(b.Succs[0], st.safe || t)
			push(b.Succs[1], st.safe || f)
		default:
			for _, s := range b.Succs {
				push(s, st.safe)
			}
		}
	}
	return bad
}

// boundary functions: declared in contracts with `effects catches-termination`.
func (g *EffGraph) boundaries() map[*ssa.Function]bool {
	out := map[*ssa.Function]bool{}
	for _, ct := range g.eng.all {
		for _, cl := range ct.byKind("effects") {
			if strings.Contains(cl.Text, "catches-termination") {
				if fn := g.eng.findFunc(ct.PkgPath, ct.Key); fn != nil {
					out[fn] = true
					for _, an := range fn.AnonFuncs {
						out[an] = true
						for _, an2 := range an.AnonFuncs {
							out[an2] = true
						}
					}
				}
			}
		}
	}
	return out
}

func (g *EffGraph) recoverObligations(scope func(pkgPath string) bool) []*EffObl {
	var out []*EffObl
	bnd := g.boundaries()
	n := 0
	for _, fn := range g.funcs {
		root := fn
		for root.Parent() != nil {
			root = root.Parent()
		}
		if root.Pkg == nil || !scope(root.Pkg.Pkg.Path()) {
			continue
		}
		for _, b := range fn.Blocks {
			for _, in := range b.Instrs {
				call, ok := in.(*ssa.Call)
				if !ok {
					continue
				}
				bi, ok := call.Call.Value.(*ssa.Builtin)
				if !ok || bi.Name() != "recover" {
					continue
				}
				n++
				pos := relPos(g.eng, g.eng.fset.Position(call.Pos()))
				o := &EffObl{Name: effName(fn) + "/effect:!intercept", Kind: "effect", Pos: pos,
					Desc: "recover() cannot turn a ContextTerminationError into a normal return"}
				if bnd[fn] {
					o.OK = true
					o.Desc += " (declared context boundary: catches-termination)"
					out = append(out, o)
					continue
				}
				sw := g.swallows(fn, call)
				if sw == "" {
					o.OK = true
					o.Desc += " (every path re-panics unless the value is nil or of another concrete type)"
					out = append(out, o)
					continue
				}
				// the handler may swallow: the protected region must be unable to terminate
				region := fn
				if fn.Parent() != nil {
					region = fn.Parent() // deferred closure: protects its parent
				}
				why, chain := g.terminatesExcluding(region, fn)
				if why == "" {
					o.OK = true
					o.Desc += " (handler swallows, but the protected function " + effName(region) + " cannot raise a termination)"
				} else {
					o.Witness = sw + "; protected region can terminate: " + why + " via " + strings.Join(chain, " -> ")
				}
				out = append(out, o)
			}
		}
	}
	out = append(out, &EffObl{Name: "effects/recover-sites-found", Kind: "cover", Desc: fmt.Sprintf("vacuity guard: %d recover() sites analysed, %d boundary functions", n, len(bnd)), OK: n > 0})
	return out
}

func (g *EffGraph) terminatesExcluding(region, handler *ssa.Function) (string, []string) {
	why, chain, _ := g.reach(region, func(f *ssa.Function) bool { return f == handler }, func(f *ssa.Function) (string, bool) {
		if f == handler {
			return "", false
		}
		for _, b := range f.Blocks {
			for _, in := range b.Instrs {
				if p, ok := in.(*ssa.Panic); ok {
					if mi, ok := p.X.(*ssa.MakeInterface); ok && g.isCTE(mi.X.Type()) {
						return "panic(ContextTerminationError) at " + relPos(g.eng, g.eng.fset.Position(p.Pos())), true
					}
				}
			}
		}
		return "", false
	})
	return why, chain
}

// ---------------------------------------------------------------------------
// C05: no Lua code runs after a context has been marked not-live
// ---------------------------------------------------------------------------
// TerminateContext does nothing on a context whose status is not live, so once
// a function has set the status of the current context to done/error/killed,
// the CPU and memory checks are ineffective: nothing that can run Lua code
// (reach Thread.RunContinuation) may follow in that function.

func (g *EffGraph) runsLua(fn *ssa.Function) (string, []string) {
	why, chain, _ := g.reach(fn, nil, func(f *ssa.Function) (string, bool) {
		if f.Name() == "RunContinuation" && f.Signature.Recv() != nil && strings.HasSuffix(fnKey(f), "runtime.(*Thread).RunContinuation") {
			return "Thread.RunContinuation", true
		}
		return "", false
	})
	return why, chain
}

func (g *EffGraph) deadContextObligations() []*EffObl {
	var out []*EffObl
	n := 0
	perFn := map[*ssa.Function]int{}
	for _, fn := range g.funcs {
		root := fn
		for root.Parent() != nil {
			root = root.Parent()
		}
		if root.Pkg == nil || !strings.HasSuffix(root.Pkg.Pkg.Path(), "/runtime") {
			continue
		}
		for _, b := range fn.Blocks {
			for idx, in := range b.Instrs {
				isWrite := false
				switch x := in.(type) {
				case *ssa.Store:
					if fa, ok := x.Addr.(*ssa.FieldAddr); ok {
						st := fa.X.Type().Underlying().(*types.Pointer).Elem().Underlying().(*types.Struct)
						if st.Field(fa.Field).Name() == "status" && strings.Contains(fa.X.Type().String(), "runtimeContextManager") {
							if k, ok := x.Val.(*ssa.Const); ok && k.Value != nil && k.Value.ExactString() != "0" {
								// writes to a local copy (PopContext's mCopy) do not affect the current context
								if al, ok := fa.X.(*ssa.Alloc); ok && al.Comment != "" {
									continue
								}
								isWrite = true
							}
						}
					}
				case *ssa.Call:
					if callee := x.Call.StaticCallee(); callee != nil && callee.Name() == "setStatus" && len(x.Call.Args) == 2 {
						if k, ok := x.Call.Args[1].(*ssa.Const); ok && k.Value != nil && k.Value.ExactString() != "0" {
							isWrite = true
						}
					}
				}
				if !isWrite {
					continue
				}
				n++
				perFn[fn]++
				o := &EffObl{Name: fmt.Sprintf("%s/effect:!lua-after-status-change#%d", effName(fn), perFn[fn]), Kind: "effect", Pos: relPos(g.eng, g.eng.fset.Position(in.Pos())),
					Desc: "after the current context is marked not-live (metering checks become ineffective) nothing in this function can run Lua code"}
				// instructions after: rest of block + all CFG-reachable blocks + deferred calls of the function
				var after []ssa.Instruction
				after = append(after, b.Instrs[idx+1:]...)
				seen := map[*ssa.BasicBlock]bool{}
				stack := append([]*ssa.BasicBlock{}, b.Succs...)
				for len(stack) > 0 {
					nb := stack[len(stack)-1]
					stack = stack[:len(stack)-1]
					if seen[nb] {
						continue
					}
					seen[nb] = true
					after = append(after, nb.Instrs...)
					stack = append(stack, nb.Succs...)
				}
				for _, b2 := range fn.Blocks {
					for _, in2 := range b2.Instrs {
						if d, ok := in2.(*ssa.Defer); ok {
							after = append(after, d)
						}
					}
				}
				o.OK = true
				for _, a := range after {
					ci, ok := a.(ssa.CallInstruction)
					if !ok {
						continue
					}
					var targets []*ssa.Function
					cc := ci.Common()
					if callee := cc.StaticCallee(); callee != nil {
						targets = append(targets, callee)
					} else if cc.IsInvoke() {
						if it, ok := cc.Value.Type().Underlying().(*types.Interface); ok {
							targets = append(targets, g.implementers(it, cc.Method)...)
						}
					} else if _, isB := cc.Value.(*ssa.Builtin); !isB {
						if f := funcOf(cc.Value); f != nil {
							targets = append(targets, f)
						} else if sig, ok := cc.Value.Type().Underlying().(*types.Signature); ok {
							targets = append(targets, g.bySig[sigKey(sig)]...)
						}
					}
					for _, tg := range targets {
						if why, chain := g.runsLua(tg); why != "" {
							o.OK = false
							o.Witness = fmt.Sprintf("call at %s can run Lua code: %s", relPos(g.eng, g.eng.fset.Position(a.Pos())), strings.Join(chain, " -> "))
							break
						}
					}
					if !o.OK {
						break
					}
				}
				out = append(out, o)
			}
		}
	}
	out = append(out, &EffObl{Name: "effects/status-writes-found", Kind: "cover", Desc: fmt.Sprintf("vacuity guard: %d writes of a non-live status analysed", n), OK: n > 0})
	return out
}

// ---------------------------------------------------------------------------
// C04: limits of the instruction compiler are reported as compilation panics
// ---------------------------------------------------------------------------
// CompileQueue converts exactly *CompilationPanic into an error; any other
// panic value raised while compiling instructions escapes to the host.  Every
// explicit panic in package ircomp must therefore carry a *CompilationPanic
// (or re-raise a recovered value), except in functions declared
// `effects internal-assertion` (consistency checks that no input can trigger).

func (g *EffGraph) compilePanicObligations() []*EffObl {
	var out []*EffObl
	exempt := map[*ssa.Function]int{}
	for _, ct := range g.eng.all {
		for _, cl := range ct.byKind("effects") {
			if strings.Contains(cl.Text, "internal-assertion") {
				if fn := g.eng.findFunc(ct.PkgPath, ct.Key); fn != nil {
					n := 1
					fmt.Sscanf(strings.TrimSpace(strings.SplitN(cl.Text, "internal-assertion", 2)[1]), "%d", &n)
					exempt[fn] = n
				}
			}
		}
	}
	n := 0
	for _, fn := range g.funcs {
		root := fn
		for root.Parent() != nil {
			root = root.Parent()
		}
		if root.Pkg == nil || !strings.HasSuffix(root.Pkg.Pkg.Path(), "/ircomp") {
			continue
		}
		var bad []string
		has := false
		for _, b := range fn.Blocks {
			for _, in := range b.Instrs {
				p, ok := in.(*ssa.Panic)
				if !ok {
					continue
				}
				has = true
				switch x := p.X.(type) {
				case *ssa.MakeInterface:
					if strings.HasSuffix(x.X.Type().String(), "ircomp.CompilationPanic") {
						continue
					}
					bad = append(bad, fmt.Sprintf("panic(%s) at %s", x.X.Type().String(), relPos(g.eng, g.eng.fset.Position(p.Pos()))))
				default:
					// re-panic of a recovered value (interface typed): allowed
					if call, ok := p.X.(*ssa.Call); ok {
						if bi, ok := call.Call.Value.(*ssa.Builtin); ok && bi.Name() == "recover" {
							continue
						}
					}
					if _, isIface := p.X.Type().Underlying().(*types.Interface); isIface {
						continue
					}
					bad = append(bad, fmt.Sprintf("panic of %s at %s", p.X.Type().String(), relPos(g.eng, g.eng.fset.Position(p.Pos()))))
				}
			}
		}
		if !has {
			continue
		}
		n++
		o := &EffObl{Name: effName(fn) + "/effect:!string-panic", Kind: "effect", Pos: relPos(g.eng, g.eng.fset.Position(fn.Pos())),
			Desc: "explicit panics carry a *CompilationPanic (converted to a compile error by CompileQueue)"}
		if k := exempt[fn]; k > 0 && len(bad) <= k {
			o.OK = true
			o.Desc += fmt.Sprintf(" (assumed: %d site(s) declared internal-assertion, not triggerable by input: %s)", len(bad), strings.Join(bad, "; "))
		} else if len(bad) == 0 {
			o.OK = true
		} else {
			o.Witness = strings.Join(bad, "; ")
		}
		out = append(out, o)
	}
	out = append(out, &EffObl{Name: "effects/ircomp-panic-sites-found", Kind: "cover", Desc: fmt.Sprintf("vacuity guard: %d functions with explicit panics analysed", n), OK: n > 0})
	return out
}

// ---------------------------------------------------------------------------
// C04: the declared arity of a Go function covers every argument it reads
// ---------------------------------------------------------------------------
// GoCont.Arg(n) is c.args[n] with no range check, and c.args has exactly the
// length the function was registered with (NewGoFunction / SetEnvGoFunc
// nArgs).  An index >= nArgs is a Go runtime panic that no Lua construct can
// catch.  For every registration with a resolvable body and a constant arity,
// the largest index the body (and the helpers it passes its continuation to)
// can hand to Arg must be below the arity.  Index expressions are evaluated
// over constants, parameters, phis and additions; anything else is reported as
// undecidable for that registration (not claimed).

type argReq struct {
	max     int            // largest constant index read (-1: none)
	maxPos  token.Pos      // where
	params  map[int]int    // parameter index -> largest constant offset added to it
	unknown []token.Pos    // indices that could not be evaluated
}

func newArgReq() *argReq { return &argReq{max: -1, params: map[int]int{}} }

type idxVal struct {
	ok     bool
	consts []int       // possible constant values
	params map[int]int // param -> offset
}

func evalIdx(v ssa.Value, fn *ssa.Function, depth int) idxVal {
	if depth > 8 {
		return idxVal{}
	}
	switch x := v.(type) {
	case *ssa.Const:
		if x.Value != nil && x.Value.Kind() == constant.Int {
			if i, ok := constant.Int64Val(x.Value); ok {
				return idxVal{ok: true, consts: []int{int(i)}}
			}
		}
	case *ssa.Parameter:
		for i, p := range fn.Params {
			if p == x {
				return idxVal{ok: true, params: map[int]int{i: 0}}
			}
		}
	case *ssa.Phi:
		out := idxVal{ok: true, params: map[int]int{}}
		for _, e := range x.Edges {
			ev := evalIdx(e, fn, depth+1)
			if !ev.ok {
				return idxVal{}
			}
			out.consts = append(out.consts, ev.consts...)
			for p, o := range ev.params {
				if old, has := out.params[p]; !has || o > old {
					out.params[p] = o
				}
			}
		}
		return out
	case *ssa.BinOp:
		if x.Op == token.ADD {
			a, b := evalIdx(x.X, fn, depth+1), evalIdx(x.Y, fn, depth+1)
			if a.ok && b.ok && len(b.params) == 0 && len(b.consts) > 0 {
				out := idxVal{ok: true, params: map[int]int{}}
				mb := b.consts[0]
				for _, c := range b.consts {
					if c > mb {
						mb = c
					}
				}
				for _, c := range a.consts {
					out.consts = append(out.consts, c+mb)
				}
				for p, o := range a.params {
					out.params[p] = o + mb
				}
				return out
			}
		}
	case *ssa.Convert:
		return evalIdx(x.X, fn, depth+1)
	case *ssa.ChangeType:
		return evalIdx(x.X, fn, depth+1)
	}
	return idxVal{}
}

func isGoContPtr(t types.Type) bool {
	p, ok := t.Underlying().(*types.Pointer)
	if !ok {
		return false
	}
	n, ok := p.Elem().(*types.Named)
	return ok && n.Obj().Name() == "GoCont" && n.Obj().Pkg() != nil && strings.HasSuffix(n.Obj().Pkg().Path(), "/runtime")
}

type argReqKey struct {
	fn *ssa.Function
	ci int // index of the *GoCont parameter (or -1-i for free variable i)
}

func (g *EffGraph) argReqOf(fn *ssa.Function, ci int, memo map[argReqKey]*argReq, stack map[argReqKey]bool) *argReq {
	key := argReqKey{fn, ci}
	if r, ok := memo[key]; ok {
		return r
	}
	req := newArgReq()
	if stack[key] {
		return req // recursion: the outer activation accounts for the body
	}
	stack[key] = true
	defer delete(stack, key)
	if len(fn.Blocks) == 0 {
		memo[key] = req
		return req
	}
	var cval ssa.Value
	if ci >= 0 {
		if ci >= len(fn.Params) {
			memo[key] = req
			return req
		}
		cval = fn.Params[ci]
	} else {
		fi := -1 - ci
		if fi >= len(fn.FreeVars) {
			memo[key] = req
			return req
		}
		cval = fn.FreeVars[fi]
	}
	// aliases of the continuation inside fn (phis of itself only)
	alias := map[ssa.Value]bool{cval: true}
	// lower bound on c.NArgs() implied by the branches that dominate a block:
	// nArgs never exceeds the number of slots, so an index below that bound
	// can only be read when the slot exists.
	isNArgs := func(v ssa.Value) bool {
		call, ok := v.(*ssa.Call)
		if !ok {
			return false
		}
		cal := call.Call.StaticCallee()
		return cal != nil && cal.Name() == "NArgs" && len(call.Call.Args) == 1 && alias[call.Call.Args[0]] && cal.Signature.Recv() != nil && isGoContPtr(cal.Signature.Recv().Type())
	}
	constOf := func(v ssa.Value) (int, bool) {
		c, ok := v.(*ssa.Const)
		if !ok || c.Value == nil || c.Value.Kind() != constant.Int {
			return 0, false
		}
		i, ok := constant.Int64Val(c.Value)
		return int(i), ok
	}
	implied := func(cond ssa.Value, branch bool) int {
		bo, ok := cond.(*ssa.BinOp)
		if !ok {
			return 0
		}
		op, x, y := bo.Op, bo.X, bo.Y
		if _, isC := constOf(x); isC { // K op X  ->  X op' K
			x, y = y, x
			switch op {
			case token.LSS:
				op = token.GTR
			case token.LEQ:
				op = token.GEQ
			case token.GTR:
				op = token.LSS
			case token.GEQ:
				op = token.LEQ
			}
		}
		// err := c.CheckNArgs(k) / c.Check1Arg(): err == nil implies NArgs() >= k
		if yc, isC := y.(*ssa.Const); isC && yc.IsNil() {
			if call, ok := x.(*ssa.Call); ok {
				if cal := call.Call.StaticCallee(); cal != nil && cal.Signature.Recv() != nil && isGoContPtr(cal.Signature.Recv().Type()) && len(call.Call.Args) >= 1 && alias[call.Call.Args[0]] {
					k := -1
					switch cal.Name() {
					case "Check1Arg":
						k = 1
					case "CheckNArgs":
						if len(call.Call.Args) == 2 {
							if kk, ok := constOf(call.Call.Args[1]); ok {
								k = kk
							}
						}
					}
					if k >= 0 && ((op == token.EQL && branch) || (op == token.NEQ && !branch)) {
						return k
					}
				}
			}
			return 0
		}
		k, okk := constOf(y)
		if !okk || !isNArgs(x) {
			return 0
		}
		if branch {
			switch op {
			case token.GEQ, token.EQL:
				return k
			case token.GTR:
				return k + 1
			case token.NEQ:
				if k == 0 {
					return 1
				}
			}
		} else {
			switch op {
			case token.LSS, token.NEQ:
				return k
			case token.LEQ:
				return k + 1
			case token.EQL:
				if k == 0 {
					return 1
				}
			}
		}
		return 0
	}
	lbCache := map[*ssa.BasicBlock]int{}
	var guardLB func(b *ssa.BasicBlock) int
	guardLB = func(b *ssa.BasicBlock) int {
		if v, ok := lbCache[b]; ok {
			return v
		}
		lbCache[b] = 0
		lb := 0
		for d := b.Idom(); d != nil; d = d.Idom() {
			if len(d.Instrs) == 0 {
				continue
			}
			ifi, ok := d.Instrs[len(d.Instrs)-1].(*ssa.If)
			if !ok || len(d.Succs) != 2 {
				continue
			}
			for si, succ := range d.Succs {
				if len(succ.Preds) == 1 && (succ == b || succ.Dominates(b)) {
					if v := implied(ifi.Cond, si == 0); v > lb {
						lb = v
					}
				}
			}
		}
		lbCache[b] = lb
		return lb
	}
	var curLB int
	need := func(iv idxVal, pos token.Pos) {
		if !iv.ok {
			req.unknown = append(req.unknown, pos)
			return
		}
		for _, c := range iv.consts {
			if c < curLB {
				continue // the dominating NArgs test guarantees the slot
			}
			if c > req.max {
				req.max, req.maxPos = c, pos
			}
		}
		for p, o := range iv.params {
			if old, has := req.params[p]; !has || o > old {
				req.params[p] = o
			}
		}
	}
	apply := func(sub *argReq, args []ssa.Value, pos token.Pos) {
		if sub.max > req.max && sub.max >= curLB {
			req.max, req.maxPos = sub.max, pos
		}
		req.unknown = append(req.unknown, sub.unknown...)
		for p, o := range sub.params {
			if p >= len(args) {
				req.unknown = append(req.unknown, pos)
				continue
			}
			iv := evalIdx(args[p], fn, 0)
			if iv.ok {
				for i := range iv.consts {
					iv.consts[i] += o
				}
				for q := range iv.params {
					iv.params[q] += o
				}
			}
			need(iv, pos)
		}
	}
	for _, b := range fn.Blocks {
		curLB = guardLB(b)
		for _, in := range b.Instrs {
			switch x := in.(type) {
			case ssa.CallInstruction:
				com := x.Common()
				callee := com.StaticCallee()
				if callee == nil {
					continue // interface / dynamic calls cannot index args by position (Cont has no such method)
				}
				for ai, a := range com.Args {
					if !alias[a] {
						continue
					}
					if callee.Name() == "Arg" && ai == 0 && callee.Signature.Recv() != nil && isGoContPtr(callee.Signature.Recv().Type()) && len(com.Args) == 2 {
						need(evalIdx(com.Args[1], fn, 0), x.Pos())
						continue
					}
					if !g.inModule[callee] {
						continue
					}
					apply(g.argReqOf(callee, ai, memo, stack), com.Args, x.Pos())
				}
				// closures created here and called/deferred directly
			case *ssa.MakeClosure:
				cf, _ := x.Fn.(*ssa.Function)
				if cf == nil {
					continue
				}
				for bi, bv := range x.Bindings {
					if alias[bv] {
						sub := g.argReqOf(cf, -1-bi, memo, stack)
						// parameters of the closure are not tracked to its call sites
						if len(sub.params) > 0 {
							req.unknown = append(req.unknown, x.Pos())
						}
						if sub.max > req.max {
							req.max, req.maxPos = sub.max, sub.maxPos
						}
						req.unknown = append(req.unknown, sub.unknown...)
					}
				}
			}
		}
	}
	memo[key] = req
	return req
}

func (g *EffGraph) arityObligations() []*EffObl {
	var out []*EffObl
	memo := map[argReqKey]*argReq{}
	seen := map[string]int{}
	n := 0
	for _, fn := range g.funcs {
		for _, b := range fn.Blocks {
			for _, in := range b.Instrs {
				call, ok := in.(*ssa.Call)
				if !ok {
					continue
				}
				callee := call.Call.StaticCallee()
				if callee == nil || callee.Pkg == nil || !strings.HasSuffix(callee.Pkg.Pkg.Path(), "/runtime") {
					continue
				}
				var fv, nameV, arV ssa.Value
				switch callee.Name() {
				case "SetEnvGoFunc":
					if len(call.Call.Args) == 6 {
						fv, nameV, arV = call.Call.Args[3], call.Call.Args[2], call.Call.Args[4]
					}
				case "NewGoFunction":
					if len(call.Call.Args) == 4 {
						fv, nameV, arV = call.Call.Args[0], call.Call.Args[1], call.Call.Args[2]
					}
				}
				if fv == nil || fn.Name() == "SetEnvGoFunc" {
					continue
				}
				pos := relPos(g.eng, g.eng.fset.Position(call.Pos()))
				lname := "?"
				if c, ok := nameV.(*ssa.Const); ok && c.Value != nil && c.Value.Kind() == constant.String {
					lname = constant.StringVal(c.Value)
				}
				body := funcOf(fv)
				ar, okA := constUint(arV)
				if body == nil || !okA {
					out = append(out, &EffObl{Name: effName(fn) + "/effect:arity(" + lname + ")", Kind: "effect", Pos: pos, Desc: "registered arity covers the argument indices read",
						Undecided: "function value or arity not a compile-time constant"})
					continue
				}
				n++
				name := effName(body) + "/effect:arity(" + lname + ")"
				seen[name]++
				if seen[name] > 1 {
					name = fmt.Sprintf("%s#%d", name, seen[name])
				}
				req := g.argReqOf(body, 1, memo, map[argReqKey]bool{})
				o := &EffObl{Name: name, Kind: "effect", Pos: pos,
					Desc: fmt.Sprintf("every argument index read through GoCont.Arg without a dominating NArgs test (largest: %d) is below the registered arity %d", req.max, ar)}
				switch {
				case len(req.unknown) > 0:
					o.Undecided = "argument index not evaluable at " + relPos(g.eng, g.eng.fset.Position(req.unknown[0]))
				case len(req.params) > 0:
					o.Undecided = "argument index depends on a parameter of the registered function"
				case req.max >= int(ar):
					o.Witness = fmt.Sprintf("Arg(%d) at %s but registered with %d argument slot(s) at %s", req.max, relPos(g.eng, g.eng.fset.Position(req.maxPos)), ar, pos)
				default:
					o.OK = true
				}
				out = append(out, o)
			}
		}
	}
	out = append(out, &EffObl{Name: "effects/arity-registrations-found", Kind: "cover", Desc: fmt.Sprintf("vacuity guard: %d registrations analysed", n), OK: n > 50})
	return out
}

// regInfo: one Go function registration (for the sweep generator, tools/sweep.py).
type regInfo struct {
	Pkg, Func, Lua string
	Arity         int
	HasEtc        bool
	Loops         int
	Contract      bool
}

func (g *EffGraph) registrationInfos() []regInfo {
	var out []regInfo
	seen := map[*ssa.Function]bool{}
	for _, fn := range g.funcs {
		for _, b := range fn.Blocks {
			for _, in := range b.Instrs {
				call, ok := in.(*ssa.Call)
				if !ok {
					continue
				}
				callee := call.Call.StaticCallee()
				if callee == nil || callee.Pkg == nil || !strings.HasSuffix(callee.Pkg.Pkg.Path(), "/runtime") {
					continue
				}
				var fv, nameV, arV, etcV ssa.Value
				switch callee.Name() {
				case "SetEnvGoFunc":
					if len(call.Call.Args) == 6 {
						fv, nameV, arV, etcV = call.Call.Args[3], call.Call.Args[2], call.Call.Args[4], call.Call.Args[5]
					}
				case "NewGoFunction":
					if len(call.Call.Args) == 4 {
						fv, nameV, arV, etcV = call.Call.Args[0], call.Call.Args[1], call.Call.Args[2], call.Call.Args[3]
					}
				}
				if fv == nil || fn.Name() == "SetEnvGoFunc" {
					continue
				}
				body := funcOf(fv)
				ar, okA := constUint(arV)
				if body == nil || !okA || seen[body] || body.Pkg == nil || body.Parent() != nil {
					continue
				}
				seen[body] = true
				lname := ""
				if c, ok := nameV.(*ssa.Const); ok && c.Value != nil && c.Value.Kind() == constant.String {
					lname = constant.StringVal(c.Value)
				}
				hasEtc := false
				if c, ok := etcV.(*ssa.Const); ok && c.Value != nil && c.Value.Kind() == constant.Bool {
					hasEtc = constant.BoolVal(c.Value)
				}
				_, has := g.eng.contractMap(fnKey(body), body)
				out = append(out, regInfo{Pkg: body.Pkg.Pkg.Path(), Func: body.Name(), Lua: lname, Arity: int(ar), HasEtc: hasEtc, Loops: countLoops(body), Contract: has})
			}
		}
	}
	sort.Slice(out, func(i, j int) bool { return out[i].Pkg+out[i].Func < out[j].Pkg+out[j].Func })
	return out
}

func countLoops(fn *ssa.Function) int {
	// loop headers: blocks with a predecessor they dominate
	n := 0
	for _, b := range fn.Blocks {
		for _, p := range b.Preds {
			if b.Dominates(p) {
				n++
				break
			}
		}
	}
	return n
}

// ---------------------------------------------------------------------------
// Stable fields: write-site audit
// ---------------------------------------------------------------------------
// `stable T.f written-by F...` lets the SMT side keep T.f across calls with
// unknown effects.  The audit checks the half of the argument that is about the
// code: the only functions of the module that store to T.f - directly, or by
// overwriting a whole T - are the listed ones.  (The other half - the object is
// not handed to a listed writer while the function under contract runs - is
// the assumption recorded with the declaration.)

func (g *EffGraph) stableObligations() []*EffObl {
	var out []*EffObl
	for _, sf := range allStable() {
		allowed := map[string]bool{}
		for _, w := range sf.Writers {
			allowed[w] = true
		}
		var bad []string
		nsites := 0
		for _, fn := range g.funcs {
			short := fn.Name()
			if recv := fn.Signature.Recv(); recv != nil {
				short = "(" + types.TypeString(recv.Type(), func(*types.Package) string { return "" }) + ")." + fn.Name()
			}
			for _, b := range fn.Blocks {
				for _, in := range b.Instrs {
					st, ok := in.(*ssa.Store)
					if !ok {
						continue
					}
					hit := false
					if fa, ok := st.Addr.(*ssa.FieldAddr); ok {
						if pt, ok := fa.X.Type().Underlying().(*types.Pointer); ok {
							if n, ok := pt.Elem().(*types.Named); ok && n.Obj().Pkg() != nil && n.Obj().Pkg().Path() == sf.Pkg && n.Obj().Name() == sf.Type {
								if stt, ok := n.Underlying().(*types.Struct); ok && fa.Field < stt.NumFields() && stt.Field(fa.Field).Name() == sf.Field {
									hit = true
								}
							}
						}
					} else if pt, ok := st.Addr.Type().Underlying().(*types.Pointer); ok {
						if n, ok := pt.Elem().(*types.Named); ok && n.Obj().Pkg() != nil && n.Obj().Pkg().Path() == sf.Pkg && n.Obj().Name() == sf.Type {
							if _, isAlloc := st.Addr.(*ssa.Alloc); !isAlloc { // initialising a fresh local/new object is construction
								hit = true
							}
						}
					}
					if !hit {
						continue
					}
					nsites++
					if !allowed[short] && !allowed[fn.Name()] {
						bad = append(bad, fmt.Sprintf("%s at %s", short, relPos(g.eng, g.eng.fset.Position(st.Pos()))))
					}
				}
			}
		}
		o := &EffObl{Name: sf.Pkg + "." + sf.Type + "." + sf.Field + "/effect:stable", Kind: "effect",
			Desc: fmt.Sprintf("only %v store to %s.%s (%d store sites found)", sf.Writers, sf.Type, sf.Field, nsites)}
		if len(bad) == 0 {
			o.OK = true
		} else {
			o.Witness = strings.Join(bad, "; ")
		}
		out = append(out, o)
	}
	return out
}

// ---------------------------------------------------------------------------
// C05: every loop of the library is metered or bounded by what exists
// ---------------------------------------------------------------------------
// "No single operation, whatever size parameters it is given, runs unmetered":
// for every loop of every function of the library packages (the code a Lua
// program drives with its arguments), one of the following holds, decided
// structurally on go/ssa:
//   charged   a call that always advances the CPU or memory counter (or the
//             pattern / unpack / marshal budget) lies on every path round the
//             loop (it dominates each back edge);
//   ranged    the loop is a `range` over a slice, string, map or channel that
//             already exists (its trip count is bounded by memory the context
//             holds, which was itself charged);
//   constant  the loop condition compares the induction variable with a
//             compile-time constant.
// Anything else is reported: its trip count is driven by a value the program
// chooses.  A function "always charges" when a charging call dominates all its
// returns (fixpoint over the module call graph).

func (g *EffGraph) chargePrimitive(fn *ssa.Function) bool {
	if fn == nil {
		return false
	}
	switch fn.Name() {
	case "RequireCPU", "requireCPU", "RequireMem", "requireMem", "RequireBytes", "RequireSize", "RequireArrSize", "LinearRequire", "consumeBudget":
		return g.inModule[fn]
	}
	return false
}

func (g *EffGraph) alwaysCharges() map[*ssa.Function]bool {
	charges := map[*ssa.Function]bool{}
	for _, fn := range g.funcs {
		if g.chargePrimitive(fn) {
			charges[fn] = true
		}
	}
	changed := true
	for changed {
		changed = false
		for _, fn := range g.funcs {
			if charges[fn] || len(fn.Blocks) == 0 {
				continue
			}
			// blocks containing a charging call
			var chargeBlocks []*ssa.BasicBlock
			for _, b := range fn.Blocks {
				for _, in := range b.Instrs {
					if ci, ok := in.(ssa.CallInstruction); ok {
						if _, isDefer := in.(*ssa.Defer); isDefer {
							continue
						}
						if _, isGo := in.(*ssa.Go); isGo {
							continue
						}
						if cal := ci.Common().StaticCallee(); cal != nil && charges[cal] {
							chargeBlocks = append(chargeBlocks, b)
							break
						}
					}
				}
			}
			if len(chargeBlocks) == 0 {
				continue
			}
			all := true
			nret := 0
			for _, b := range fn.Blocks {
				if len(b.Instrs) == 0 {
					continue
				}
				if _, isRet := b.Instrs[len(b.Instrs)-1].(*ssa.Return); !isRet {
					continue
				}
				ret := b.Instrs[len(b.Instrs)-1].(*ssa.Return)
				// a return that reports an error ends the caller's loop as well (the library
				// propagates errors): it does not need a charge of its own
				if n := len(ret.Results); n > 0 {
					if types.Identical(ret.Results[n-1].Type(), types.Universe.Lookup("error").Type()) {
						if c, isC := ret.Results[n-1].(*ssa.Const); !isC || !c.IsNil() {
							continue
						}
					}
				}
				nret++
				dom := false
				for _, cb := range chargeBlocks {
					if cb.Dominates(b) {
						dom = true
					}
				}
				if !dom {
					all = false
				}
			}
			if all && nret > 0 {
				charges[fn] = true
				changed = true
			}
		}
	}
	return charges
}

func (g *EffGraph) meterObligations(scope func(string) bool) []*EffObl {
	var out []*EffObl
	charges := g.alwaysCharges()
	nloops := 0
	// `effects unmetered-loop K`: loop K of the function is known not to be metered (a recorded finding)
	declaredUnmetered := map[*ssa.Function]map[int]bool{}
	declaredMetered := map[*ssa.Function]map[int]bool{}
	for _, ct := range g.eng.all {
		for _, cl := range ct.byKind("effects") {
			// `effects metered-loop K`: accepted only when the contract has an invariant of that
			// loop that mentions a ghost counter (the proof obligation lives there)
			if i := strings.Index(cl.Text, "metered-loop"); i >= 0 && !strings.Contains(cl.Text, "unmetered-loop") {
				if fn := g.eng.findFunc(ct.PkgPath, ct.Key); fn != nil {
					k := 0
					fmt.Sscanf(strings.TrimSpace(cl.Text[i+len("metered-loop"):]), "%d", &k)
					for _, inv := range ct.Clauses {
						if inv.Kind == "invariant" && inv.Loop == k && strings.Contains(inv.Text, "ghost(") {
							if declaredMetered[fn] == nil {
								declaredMetered[fn] = map[int]bool{}
							}
							declaredMetered[fn][k] = true
						}
					}
				}
			}
			if i := strings.Index(cl.Text, "unmetered-loop"); i >= 0 {
				if fn := g.eng.findFunc(ct.PkgPath, ct.Key); fn != nil {
					k := 0
					fmt.Sscanf(strings.TrimSpace(cl.Text[i+len("unmetered-loop"):]), "%d", &k)
					if declaredUnmetered[fn] == nil {
						declaredUnmetered[fn] = map[int]bool{}
					}
					declaredUnmetered[fn][k] = true
				}
			}
		}
	}
	for _, fn := range g.funcs {
		root := fn
		for root.Parent() != nil {
			root = root.Parent()
		}
		if root.Pkg == nil || len(fn.Blocks) == 0 {
			continue
		}
		pp := root.Pkg.Pkg.Path()
		if !strings.Contains(pp, "/lib/") || !scope(pp) || strings.HasSuffix(pp, "/goimports") {
			continue
		}
		if isInitFunc(root) || strings.HasPrefix(fn.Name(), "verifFrag_") {
			continue // (generated fragment wrappers repeat loops of their source function)
		}
		// natural loops: header h with a back edge p->h (h dominates p)
		ord := 0
		for _, h := range fn.Blocks {
			var backs []*ssa.BasicBlock
			for _, p := range h.Preds {
				if h.Dominates(p) {
					backs = append(backs, p)
				}
			}
			if len(backs) == 0 {
				continue
			}
			ord++
			nloops++
			// loop body: blocks that reach a back edge source without leaving through h
			body := map[*ssa.BasicBlock]bool{h: true}
			var stack []*ssa.BasicBlock
			for _, b := range backs {
				if !body[b] {
					body[b] = true
					stack = append(stack, b)
				}
			}
			for len(stack) > 0 {
				b := stack[len(stack)-1]
				stack = stack[:len(stack)-1]
				for _, p := range b.Preds {
					if !body[p] {
						body[p] = true
						stack = append(stack, p)
					}
				}
			}
			kind := ""
			// ranged
			for _, in := range h.Instrs {
				if phi, ok := in.(*ssa.Phi); ok {
					if _, _, ok := rangeIndexPhi(phi); ok {
						kind = "ranged"
					}
				}
			}
			for b := range body {
				for _, in := range b.Instrs {
					if _, ok := in.(*ssa.Next); ok {
						kind = "ranged" // range over a map or string
					}
					if u, ok := in.(*ssa.UnOp); ok && u.Op == token.ARROW {
						kind = "ranged" // receives from a channel: paced by the sender
					}
				}
			}
			// charged: a charging call in a block of the body that dominates every back edge source
			if kind == "" {
				for b := range body {
					hasCharge := false
					for _, in := range b.Instrs {
						if ci, ok := in.(ssa.CallInstruction); ok {
							if _, isDefer := in.(*ssa.Defer); isDefer {
								continue
							}
							if cal := ci.Common().StaticCallee(); cal != nil && charges[cal] {
								hasCharge = true
							}
						}
					}
					if !hasCharge {
						continue
					}
					domAll := true
					for _, p := range backs {
						if !b.Dominates(p) {
							domAll = false
						}
					}
					if domAll {
						kind = "charged"
					}
				}
			}
			// length-bounded: an exit test compares a stepped variable with the length of an
			// object that exists (len(x), possibly +/- a constant or halved/doubled)
			if kind == "" {
				for b := range body {
					if len(b.Instrs) == 0 {
						continue
					}
					ifi, ok := b.Instrs[len(b.Instrs)-1].(*ssa.If)
					if !ok {
						continue
					}
					leaves := false
					for _, sc := range b.Succs {
						if !body[sc] {
							leaves = true
						}
					}
					if !leaves {
						continue
					}
					if cmp, ok := ifi.Cond.(*ssa.BinOp); ok && (cmp.Op == token.LSS || cmp.Op == token.LEQ || cmp.Op == token.GTR || cmp.Op == token.GEQ) {
						if (fromLen(cmp.Y, 0) && steppedVar(cmp.X, h)) || (fromLen(cmp.X, 0) && steppedVar(cmp.Y, h)) {
							kind = "length-bounded"
						}
						// an 8-bit counter compared with an 8-bit bound: at most 256 iterations
						if bt, ok := cmp.X.Type().Underlying().(*types.Basic); ok && (bt.Kind() == types.Uint8 || bt.Kind() == types.Int8) && (cmp.Op == token.LSS || cmp.Op == token.GTR) {
							if steppedVar(cmp.X, h) || steppedVar(cmp.Y, h) {
								kind = "constant"
							}
						}
					}
				}
			}
			// constant bound: header (or a body block ending in If) compares with a constant
			if kind == "" {
				for b := range body {
					if len(b.Instrs) == 0 {
						continue
					}
					ifi, ok := b.Instrs[len(b.Instrs)-1].(*ssa.If)
					if !ok {
						continue
					}
					leaves := false
					for _, s := range b.Succs {
						if !body[s] {
							leaves = true
						}
					}
					if !leaves {
						continue
					}
					if cmp, ok := ifi.Cond.(*ssa.BinOp); ok {
						_, cx := cmp.X.(*ssa.Const)
						_, cy := cmp.Y.(*ssa.Const)
						if (cx || cy) && (cmp.Op == token.LSS || cmp.Op == token.LEQ || cmp.Op == token.GTR || cmp.Op == token.GEQ || cmp.Op == token.NEQ) {
							// the other side must be an induction variable stepping by a constant
							other := cmp.X
							if cx {
								other = cmp.Y
							}
							if steppedByConst(other, h) {
								kind = "constant"
							}
						}
					}
				}
			}
			name := fmt.Sprintf("%s/effect:metered-loop#%d", effName(fn), ord)
			o := &EffObl{Name: name, Kind: "effect", Pos: relPos(g.eng, g.eng.fset.Position(h.Instrs[0].Pos())),
				Desc: "the loop is charged on every iteration, ranges over an existing object, or has a constant bound"}
			if !o.validPos() {
				for b := range body {
					for _, in := range b.Instrs {
						if in.Pos().IsValid() && !o.validPos() {
							o.Pos = relPos(g.eng, g.eng.fset.Position(in.Pos()))
						}
					}
				}
			}
			switch {
			case declaredMetered[fn][ord]:
				o.OK = true
				o.Desc += " (charged in bulk before the loop: the bound on the iterations left is a loop invariant over the ghost counter in the function's contract, proved on the SMT side)"
			case declaredUnmetered[fn][ord]:
				o.Witness = "loop at " + o.Pos + " is declared unmetered: its trip count is not bounded by a charge, an existing object or a constant"
			case kind != "":
				o.OK = true
				o.Desc += " (" + kind + ")"
			default:
				// bulk charges before the loop, bounds held in struct fields etc.: not decidable structurally
				o.Undecided = "loop at " + o.Pos + ": no charging call on every iteration, not a range, no length or constant bound recognised"
			}
			out = append(out, o)
		}
	}
	out = append(out, &EffObl{Name: "effects/library-loops-found", Kind: "cover", Desc: fmt.Sprintf("vacuity guard: %d loops analysed", nloops), OK: nloops > 50})
	return out
}

func (o *EffObl) validPos() bool { return o.Pos != "" && !strings.HasPrefix(o.Pos, "-") && !strings.HasSuffix(o.Pos, ":0") }

// steppedByConst: v is a header phi of h (or derived from one by +/- const) whose
// loop-carried value is itself plus or minus a constant.
func steppedByConst(v ssa.Value, h *ssa.BasicBlock) bool {
	for depth := 0; depth < 4; depth++ {
		switch x := v.(type) {
		case *ssa.Phi:
			if x.Block() != h {
				return false
			}
			for _, e := range x.Edges {
				if bo, ok := e.(*ssa.BinOp); ok && (bo.Op == token.ADD || bo.Op == token.SUB) {
					if _, isC := bo.Y.(*ssa.Const); isC && bo.X == x {
						return true
					}
				}
			}
			return false
		case *ssa.BinOp:
			if _, isC := x.Y.(*ssa.Const); isC && (x.Op == token.ADD || x.Op == token.SUB) {
				v = x.X
				continue
			}
			return false
		case *ssa.Convert:
			v = x.X
			continue
		default:
			return false
		}
	}
	return false
}

// fromLen: the value is len(x) of a slice, string, array or map, adjusted by
// constants (x +/- c, x * c, x / c, conversions).
func fromLen(v ssa.Value, depth int) bool {
	if depth > 4 {
		return false
	}
	switch x := v.(type) {
	case *ssa.Call:
		if bi, ok := x.Call.Value.(*ssa.Builtin); ok && (bi.Name() == "len" || bi.Name() == "cap") {
			return true
		}
	case *ssa.BinOp:
		_, cx := x.X.(*ssa.Const)
		_, cy := x.Y.(*ssa.Const)
		switch x.Op {
		case token.ADD, token.SUB, token.MUL, token.QUO, token.SHR, token.SHL:
			if cy {
				return fromLen(x.X, depth+1)
			}
			if cx {
				return fromLen(x.Y, depth+1)
			}
		}
	case *ssa.Convert:
		return fromLen(x.X, depth+1)
	case *ssa.Phi:
		for _, e := range x.Edges {
			if e != x && !fromLen(e, depth+1) {
				return false
			}
		}
		return len(x.Edges) > 0
	}
	return false
}

// steppedVar: derived from a header phi of h that steps by a constant (i, i+1, 2*i, l-i with l from len).
func steppedVar(v ssa.Value, h *ssa.BasicBlock) bool {
	for depth := 0; depth < 5; depth++ {
		switch x := v.(type) {
		case *ssa.Phi:
			return steppedByConst(x, h)
		case *ssa.BinOp:
			_, cx := x.X.(*ssa.Const)
			_, cy := x.Y.(*ssa.Const)
			if cy {
				v = x.X
				continue
			}
			if cx {
				v = x.Y
				continue
			}
			return false
		case *ssa.Convert:
			v = x.X
			continue
		default:
			return false
		}
	}
	return false
}

// ---------------------------------------------------------------------------
// Field-level frames: `effects writes-only T.f[,T.g]`
// ---------------------------------------------------------------------------
// The function (with the module functions it calls statically, transitively)
// stores to no field of struct type T other than the listed ones, and never
// overwrites a whole T.  Used for frames the SMT side cannot state because the
// object is reached through an interior pointer returned by a callee.

func (g *EffGraph) writesOnlyObligations(prop string) []*EffObl {
	var out []*EffObl
	for _, ct := range g.eng.all {
		if !ct.hasProp(prop) {
			continue
		}
		for _, cl := range ct.byKind("effects") {
			i := strings.Index(cl.Text, "writes-only")
			if i < 0 {
				continue
			}
			fn := g.eng.findFunc(ct.PkgPath, ct.Key)
			if fn == nil {
				continue
			}
			allowed := map[string]bool{}
			tname := ""
			for _, item := range strings.Split(cl.Text[i+len("writes-only"):], ",") {
				item = strings.TrimSpace(item)
				if j := strings.Index(item, "."); j > 0 {
					tname = item[:j]
					allowed[item] = true
				}
			}
			var bad []string
			seen := map[*ssa.Function]bool{}
			var walk func(f *ssa.Function, depth int)
			walk = func(f *ssa.Function, depth int) {
				if seen[f] || depth > 6 || len(f.Blocks) == 0 {
					return
				}
				seen[f] = true
				for _, b := range f.Blocks {
					for _, in := range b.Instrs {
						switch x := in.(type) {
						case *ssa.Store:
							if fa, ok := x.Addr.(*ssa.FieldAddr); ok {
								if pt, ok := fa.X.Type().Underlying().(*types.Pointer); ok {
									if n, ok := pt.Elem().(*types.Named); ok && n.Obj().Name() == tname {
										if stt, ok := n.Underlying().(*types.Struct); ok {
											fname := tname + "." + stt.Field(fa.Field).Name()
											if !allowed[fname] {
												bad = append(bad, fmt.Sprintf("store to %s in %s at %s", fname, f.Name(), relPos(g.eng, g.eng.fset.Position(x.Pos()))))
											}
										}
									}
								}
							} else if pt, ok := x.Addr.Type().Underlying().(*types.Pointer); ok {
								if n, ok := pt.Elem().(*types.Named); ok && n.Obj().Name() == tname {
									if _, isAlloc := x.Addr.(*ssa.Alloc); !isAlloc {
										bad = append(bad, fmt.Sprintf("whole %s overwritten in %s at %s", tname, f.Name(), relPos(g.eng, g.eng.fset.Position(x.Pos()))))
									}
								}
							}
						case ssa.CallInstruction:
							if cal := x.Common().StaticCallee(); cal != nil && g.inModule[cal] {
								walk(cal, depth+1)
							}
						}
					}
				}
			}
			walk(fn, 0)
			o := &EffObl{Name: effName(fn) + "/effect:writes-only(" + tname + ")", Kind: "effect", Pos: relPos(g.eng, g.eng.fset.Position(fn.Pos())),
				Desc: "stores to " + tname + " touch only " + strings.TrimSpace(cl.Text[i+len("writes-only"):])}
			if len(bad) == 0 {
				o.OK = true
			} else {
				o.Witness = strings.Join(bad, "; ")
			}
			out = append(out, o)
		}
	}
	return out
}

// ---------------------------------------------------------------------------
// C10: a panic that is passed on is passed on untouched
// ---------------------------------------------------------------------------
// `effects repanic-clean`: in a function that recovers a panic and re-raises
// the values it does not handle (the close signal of coroutine.close travels as
// a panic through every protected call of the coroutine), nothing is called and
// nothing is stored on the way from recover() to the re-panic: in particular the
// pending to-be-closed values are still on the close stack for the frame that
// finally handles the signal.

func (g *EffGraph) repanicCleanObligations(prop string) []*EffObl {
	var out []*EffObl
	for _, ct := range g.eng.all {
		if !ct.hasProp(prop) {
			continue
		}
		declared := false
		for _, cl := range ct.byKind("effects") {
			if strings.Contains(cl.Text, "repanic-clean") {
				declared = true
			}
		}
		if !declared {
			continue
		}
		fn := g.eng.findFunc(ct.PkgPath, ct.Key)
		if fn == nil {
			// closure of a method: PARENT$N
			if i := strings.LastIndex(ct.Key, "$"); i > 0 {
				if parent := g.eng.findFunc(ct.PkgPath, ct.Key[:i]); parent != nil {
					n := 0
					fmt.Sscanf(ct.Key[i+1:], "%d", &n)
					if n >= 1 && n <= len(parent.AnonFuncs) {
						fn = parent.AnonFuncs[n-1]
					}
				}
			}
		}
		if fn == nil {
			out = append(out, &EffObl{Name: ct.PkgPath + "." + ct.Key + "/effect:repanic-clean", Kind: "effect", Desc: "function not found", Witness: "function " + ct.Key + " not found"})
			continue
		}
		var bad []string
		nre := 0
		for _, rb := range fn.Blocks {
			for ri, in := range rb.Instrs {
				call, ok := in.(*ssa.Call)
				if !ok {
					continue
				}
				if bi, ok := call.Call.Value.(*ssa.Builtin); !ok || bi.Name() != "recover" {
					continue
				}
				// re-panics of (something derived from) the recovered value
				for _, pb := range fn.Blocks {
					for pi, pin := range pb.Instrs {
						p, ok := pin.(*ssa.Panic)
						if !ok || !derivesFrom(p.X, call, 0) {
							continue
						}
						nre++
						// blocks on a path from rb to pb
						fwd := reachFrom(rb)
						bwd := reachTo(fn, pb)
						for _, b := range fn.Blocks {
							if !(b == rb || fwd[b]) || !(b == pb || bwd[b]) {
								continue
							}
							for ii, x := range b.Instrs {
								if b == rb && ii <= ri {
									continue
								}
								if b == pb && ii >= pi {
									continue
								}
								switch y := x.(type) {
								case *ssa.Call:
									if _, isB := y.Call.Value.(*ssa.Builtin); isB {
										continue
									}
									bad = append(bad, fmt.Sprintf("call %s at %s", calleeName(&y.Call), relPos(g.eng, g.eng.fset.Position(y.Pos()))))
								case *ssa.Store:
									if _, isAlloc := y.Addr.(*ssa.Alloc); isAlloc {
										continue
									}
									bad = append(bad, fmt.Sprintf("store at %s", relPos(g.eng, g.eng.fset.Position(y.Pos()))))
								}
							}
						}
					}
				}
			}
		}
		o := &EffObl{Name: effName(fn) + "/effect:repanic-clean", Kind: "effect", Pos: relPos(g.eng, g.eng.fset.Position(fn.Pos())),
			Desc: fmt.Sprintf("nothing is called or stored between recover() and the re-panic of an unhandled value (%d re-panic sites)", nre)}
		switch {
		case nre == 0:
			o.Witness = "no re-panic of the recovered value found"
		case len(bad) == 0:
			o.OK = true
		default:
			o.Witness = strings.Join(bad, "; ")
		}
		out = append(out, o)
	}
	return out
}

func calleeName(c *ssa.CallCommon) string {
	if f := c.StaticCallee(); f != nil {
		return f.Name()
	}
	if c.IsInvoke() {
		return c.Method.Name()
	}
	return "func value"
}

func derivesFrom(v ssa.Value, src ssa.Value, depth int) bool {
	if v == src {
		return true
	}
	if depth > 6 {
		return false
	}
	switch x := v.(type) {
	case *ssa.Phi:
		for _, e := range x.Edges {
			if derivesFrom(e, src, depth+1) {
				return true
			}
		}
	case *ssa.ChangeInterface:
		return derivesFrom(x.X, src, depth+1)
	case *ssa.MakeInterface:
		return derivesFrom(x.X, src, depth+1)
	case *ssa.Extract:
		return derivesFrom(x.Tuple, src, depth+1)
	case *ssa.TypeAssert:
		return derivesFrom(x.X, src, depth+1)
	case *ssa.UnOp:
		// load of a local the recovered value was stored in
		if al, ok := x.X.(*ssa.Alloc); ok && al.Referrers() != nil {
			for _, r := range *al.Referrers() {
				if st, ok := r.(*ssa.Store); ok && st.Addr == al && derivesFrom(st.Val, src, depth+1) {
					return true
				}
			}
		}
	}
	return false
}

func reachFrom(b *ssa.BasicBlock) map[*ssa.BasicBlock]bool {
	seen := map[*ssa.BasicBlock]bool{}
	stack := append([]*ssa.BasicBlock{}, b.Succs...)
	for len(stack) > 0 {
		x := stack[len(stack)-1]
		stack = stack[:len(stack)-1]
		if seen[x] {
			continue
		}
		seen[x] = true
		stack = append(stack, x.Succs...)
	}
	return seen
}

func reachTo(fn *ssa.Function, b *ssa.BasicBlock) map[*ssa.BasicBlock]bool {
	seen := map[*ssa.BasicBlock]bool{}
	stack := append([]*ssa.BasicBlock{}, b.Preds...)
	for len(stack) > 0 {
		x := stack[len(stack)-1]
		stack = stack[:len(stack)-1]
		if seen[x] {
			continue
		}
		seen[x] = true
		stack = append(stack, x.Preds...)
	}
	return seen
}

// ---------------------------------------------------------------------------
// C09: a new coroutine's goroutine touches nothing before it is handed control
// ---------------------------------------------------------------------------
// `effects first-call NAME`: the first call the function makes (deferred calls,
// which run at exit, excluded) is to NAME.  For the goroutine started by
// Thread.Start, NAME is the receive of the resume values: until the resumer
// hands control over, the goroutine runs concurrently with it and must not
// touch the runtime (quota counters, pools, ...).

func (g *EffGraph) firstCallObligations(prop string) []*EffObl {
	var out []*EffObl
	for _, ct := range g.eng.all {
		if !ct.hasProp(prop) {
			continue
		}
		for _, cl := range ct.byKind("effects") {
			i := strings.Index(cl.Text, "first-call")
			if i < 0 {
				continue
			}
			want := strings.TrimSpace(cl.Text[i+len("first-call"):])
			fn := g.eng.findFunc(ct.PkgPath, ct.Key)
			if fn == nil {
				if j := strings.LastIndex(ct.Key, "$"); j > 0 {
					if parent := g.eng.findFunc(ct.PkgPath, ct.Key[:j]); parent != nil {
						n := 0
						fmt.Sscanf(ct.Key[j+1:], "%d", &n)
						if n >= 1 && n <= len(parent.AnonFuncs) {
							fn = parent.AnonFuncs[n-1]
						}
					}
				}
			}
			o := &EffObl{Name: ct.PkgPath + "." + ct.Key + "/effect:first-call(" + want + ")", Kind: "effect",
				Desc: "the first call made (deferred calls excluded) is " + want}
			if fn == nil || len(fn.Blocks) == 0 {
				o.Witness = "function not found"
				out = append(out, o)
				continue
			}
			o.Pos = relPos(g.eng, g.eng.fset.Position(fn.Pos()))
			b := fn.Blocks[0]
			found := ""
			seen := map[*ssa.BasicBlock]bool{}
		Walk:
			for b != nil && !seen[b] {
				seen[b] = true
				for _, in := range b.Instrs {
					switch x := in.(type) {
					case *ssa.Defer, *ssa.MakeClosure:
						continue
					case *ssa.Go:
						found = "go statement"
						break Walk
					case *ssa.Call:
						if _, isB := x.Call.Value.(*ssa.Builtin); isB {
							continue
						}
						found = calleeName(&x.Call)
						break Walk
					}
				}
				if len(b.Succs) == 1 {
					b = b.Succs[0]
				} else {
					found = "(branch before any call)"
					break
				}
			}
			if found == want {
				o.OK = true
			} else {
				o.Witness = "first call is " + found
			}
			out = append(out, o)
		}
	}
	return out
}

// ---------------------------------------------------------------------------
// C04 / C05: nothing escapes a goroutine
// ---------------------------------------------------------------------------
// A panic that leaves the function of a `go` statement kills the process: no
// host recover() can see it.  For every goroutine started in the library:
// (1) its function defers a closure that calls recover(); (2) in such a
// deferred closure - which runs after the recover, unprotected - no call can
// raise a context termination, except through a function that catches whatever
// its callees raise (a deferred recover() whose closure has no panic
// instruction: it hands the value on instead of re-raising it).

func hasRecover(fn *ssa.Function) bool {
	for _, b := range fn.Blocks {
		for _, in := range b.Instrs {
			if call, ok := in.(*ssa.Call); ok {
				if bi, ok := call.Call.Value.(*ssa.Builtin); ok && bi.Name() == "recover" {
					return true
				}
			}
		}
	}
	return false
}

func hasPanicInstr(fn *ssa.Function) bool {
	for _, b := range fn.Blocks {
		for _, in := range b.Instrs {
			if _, ok := in.(*ssa.Panic); ok {
				return true
			}
		}
	}
	return false
}

// deferredClosures lists the closures that fn defers directly.
func deferredClosures(fn *ssa.Function) []*ssa.Function {
	var out []*ssa.Function
	for _, b := range fn.Blocks {
		for _, in := range b.Instrs {
			d, ok := in.(*ssa.Defer)
			if !ok {
				continue
			}
			switch v := d.Call.Value.(type) {
			case *ssa.MakeClosure:
				if f, ok := v.Fn.(*ssa.Function); ok {
					out = append(out, f)
				}
			case *ssa.Function:
				out = append(out, v)
			}
		}
	}
	return out
}

// catchesAll: fn defers a closure that recovers and never panics itself, so no
// panic raised by fn's callees leaves fn.
func catchesAll(fn *ssa.Function) bool {
	for _, d := range deferredClosures(fn) {
		if hasRecover(d) && !hasPanicInstr(d) {
			return true
		}
	}
	return false
}

// ctePanicIn: fn itself contains panic(ContextTerminationError).
func (g *EffGraph) ctePanicIn(f *ssa.Function) (string, bool) {
	for _, b := range f.Blocks {
		for _, in := range b.Instrs {
			if p, ok := in.(*ssa.Panic); ok {
				if mi, ok := p.X.(*ssa.MakeInterface); ok && g.isCTE(mi.X.Type()) {
					return "panic(ContextTerminationError) at " + relPos(g.eng, g.eng.fset.Position(p.Pos())), true
				}
			}
		}
	}
	return "", false
}

// safeCatcher: fn catches everything its callees raise (catchesAll) and the
// closure that does the catching - which runs after the recover, unprotected -
// cannot itself raise a termination (looking through other safe catchers only).
func (g *EffGraph) safeCatcher(fn *ssa.Function, visiting map[*ssa.Function]bool) bool {
	if !catchesAll(fn) {
		return false
	}
	if visiting[fn] {
		return false // a catcher reached from its own handler protects nothing there
	}
	visiting[fn] = true
	defer delete(visiting, fn)
	for _, d := range deferredClosures(fn) {
		if !hasRecover(d) {
			continue
		}
		w, _, _ := g.reach(d, func(f *ssa.Function) bool { return f != d && g.safeCatcher(f, visiting) }, func(f *ssa.Function) (string, bool) {
			if f != d && g.safeCatcher(f, visiting) {
				return "", false
			}
			return g.ctePanicIn(f)
		})
		if w != "" {
			return false
		}
	}
	return true
}

func (g *EffGraph) goroutineEscapeObligations(scope func(string) bool) []*EffObl {
	var out []*EffObl
	n := 0
	for _, fn := range g.funcs {
		root := fn
		for root.Parent() != nil {
			root = root.Parent()
		}
		if root.Pkg == nil || !scope(root.Pkg.Pkg.Path()) {
			continue
		}
		k := 0
		for _, b := range fn.Blocks {
			for _, in := range b.Instrs {
				gi, ok := in.(*ssa.Go)
				if !ok {
					continue
				}
				k++
				n++
				pos := relPos(g.eng, g.eng.fset.Position(gi.Pos()))
				o := &EffObl{Name: fmt.Sprintf("%s/effect:!goroutine-escape#%d", effName(fn), k), Kind: "effect", Pos: pos,
					Desc: "no context termination can leave the goroutine started here (it would kill the process)"}
				var body *ssa.Function
				switch v := gi.Call.Value.(type) {
				case *ssa.MakeClosure:
					body, _ = v.Fn.(*ssa.Function)
				case *ssa.Function:
					body = v
				}
				if body == nil {
					o.Undecided = "goroutine function is not statically known"
					out = append(out, o)
					continue
				}
				why, chain := g.terminates(body)
				if why == "" {
					o.OK = true
					o.Desc += " (its function cannot raise one)"
					out = append(out, o)
					continue
				}
				var handlers []*ssa.Function
				for _, d := range deferredClosures(body) {
					if hasRecover(d) {
						handlers = append(handlers, d)
					}
				}
				if len(handlers) == 0 {
					o.Witness = "goroutine function " + effName(body) + " defers no recover(); it can terminate: " + why + " via " + strings.Join(chain, " -> ")
					out = append(out, o)
					continue
				}
				var bad []string
				for _, h := range handlers {
					w, ch, _ := g.reach(h, func(f *ssa.Function) bool { return g.safeCatcher(f, map[*ssa.Function]bool{}) }, func(f *ssa.Function) (string, bool) {
						if f != h && g.safeCatcher(f, map[*ssa.Function]bool{}) {
							return "", false
						}
						for _, b := range f.Blocks {
							for _, in := range b.Instrs {
								if p, ok := in.(*ssa.Panic); ok {
									if mi, ok := p.X.(*ssa.MakeInterface); ok && g.isCTE(mi.X.Type()) {
										return "panic(ContextTerminationError) at " + relPos(g.eng, g.eng.fset.Position(p.Pos())), true
									}
								}
							}
						}
						return "", false
					})
					if w != "" {
						bad = append(bad, "the deferred handler "+effName(h)+" runs after its recover() and can itself terminate: "+w+" via "+strings.Join(ch, " -> "))
					}
				}
				if len(bad) == 0 {
					o.OK = true
					o.Desc += " (recovered by its deferred handler, which cannot terminate itself)"
				} else {
					o.Witness = strings.Join(bad, "; ")
				}
				out = append(out, o)
			}
		}
	}
	out = append(out, &EffObl{Name: "effects/goroutines-found", Kind: "cover", Desc: fmt.Sprintf("vacuity guard: %d go statements analysed", n), OK: n > 0})
	return out
}
