package main

// Rename inference.  Contracts are keyed by function names and mention
// parameters, named results and locals by their source names.  A change that
// only renames one of those keeps every property, so it must not raise an alarm:
// /verif/claimed/names.json records, for the reference tree, the signature,
// parameter/result names and declared locals (name, type, in source order) of
// every function of the packages under contract.  When a name a contract uses
// is missing from the current tree, the index says what it was (its position or
// type and order), and the unique new name in that place is used instead.  The
// obligations are generated from and proved about the current code as always;
// inference only decides which current name an old name denotes, and where it is
// not unique nothing is inferred (the obligation cannot attach and is reported).

import (
	"encoding/json"
	"go/ast"
	"go/types"
	"os"
	"path/filepath"
	"sort"
	"strings"

	"golang.org/x/tools/go/packages"
	"golang.org/x/tools/go/ssa"
)

type FuncNames struct {
	Sig     string      `json:"sig"`
	Params  []string    `json:"params,omitempty"`
	Results []string    `json:"results,omitempty"`
	Locals  [][2]string `json:"locals,omitempty"` // name, type; source order
}

type PkgNames struct {
	Funcs  map[string]*FuncNames `json:"funcs"`
	Fields map[string][][2]string `json:"fields,omitempty"` // named struct type -> (field, type) in order
}

type NameIndex map[string]*PkgNames

func sigString(sig *types.Signature, pkg *types.Package) string {
	qf := types.RelativeTo(pkg)
	var b strings.Builder
	b.WriteString("(")
	for i := 0; i < sig.Params().Len(); i++ {
		if i > 0 {
			b.WriteString(",")
		}
		if sig.Variadic() && i == sig.Params().Len()-1 {
			b.WriteString("...")
		}
		b.WriteString(types.TypeString(sig.Params().At(i).Type(), qf))
	}
	b.WriteString(")(")
	for i := 0; i < sig.Results().Len(); i++ {
		if i > 0 {
			b.WriteString(",")
		}
		b.WriteString(types.TypeString(sig.Results().At(i).Type(), qf))
	}
	b.WriteString(")")
	return b.String()
}

// relKey is the contract key of a function relative to its package: f, (T).m, (*T).m.
func relKey(fn *ssa.Function) string {
	if fn.Pkg == nil {
		return ""
	}
	return fn.RelString(fn.Pkg.Pkg)
}

func (e *Engine) funcNames(fn *ssa.Function) *FuncNames {
	fnm := &FuncNames{Sig: sigString(fn.Signature, fn.Pkg.Pkg)}
	for _, p := range fn.Params {
		fnm.Params = append(fnm.Params, p.Name())
	}
	if fn.Signature.Recv() != nil && len(fnm.Params) > 0 {
		// the receiver is Params[0]; keep it (it is named in contracts)
	}
	for i := 0; i < fn.Signature.Results().Len(); i++ {
		fnm.Results = append(fnm.Results, fn.Signature.Results().At(i).Name())
	}
	fd, ok := fn.Syntax().(*ast.FuncDecl)
	if !ok || fd.Body == nil {
		return fnm
	}
	info := e.typesInfoOf(fn.Pkg.Pkg)
	if info == nil {
		return fnm
	}
	qf := types.RelativeTo(fn.Pkg.Pkg)
	isParam := map[types.Object]bool{}
	for i := 0; i < fn.Signature.Params().Len(); i++ {
		isParam[fn.Signature.Params().At(i)] = true
	}
	for i := 0; i < fn.Signature.Results().Len(); i++ {
		isParam[fn.Signature.Results().At(i)] = true
	}
	if r := fn.Signature.Recv(); r != nil {
		isParam[r] = true
	}
	ast.Inspect(fd.Body, func(n ast.Node) bool {
		if _, isLit := n.(*ast.FuncLit); isLit {
			return false
		}
		id, ok := n.(*ast.Ident)
		if !ok || id.Name == "_" {
			return true
		}
		obj := info.Defs[id]
		v, isVar := obj.(*types.Var)
		if !isVar || v.IsField() || isParam[obj] {
			return true
		}
		fnm.Locals = append(fnm.Locals, [2]string{id.Name, types.TypeString(v.Type(), qf)})
		return true
	})
	return fnm
}

func (e *Engine) typesInfoOf(pkg *types.Package) *types.Info {
	e.infoOnce.Do(func() {
		e.infos = map[*types.Package]*types.Info{}
		packages.Visit(e.pkgs, nil, func(p *packages.Package) {
			if p.Types != nil && p.TypesInfo != nil {
				e.infos[p.Types] = p.TypesInfo
			}
		})
	})
	return e.infos[pkg]
}

// buildNameIndex describes every package of the module that has a contract.
func (e *Engine) buildNameIndex() NameIndex {
	idx := NameIndex{}
	want := map[string]bool{}
	for _, ct := range e.all {
		want[ct.PkgPath] = true
	}
	for path := range want {
		sp := e.spkgs[path]
		if sp == nil {
			continue
		}
		pn := &PkgNames{Funcs: map[string]*FuncNames{}, Fields: map[string][][2]string{}}
		qf := types.RelativeTo(sp.Pkg)
		for _, fn := range e.packageFuncs(sp) {
			pn.Funcs[relKey(fn)] = e.funcNames(fn)
		}
		for _, name := range sp.Pkg.Scope().Names() {
			tn, ok := sp.Pkg.Scope().Lookup(name).(*types.TypeName)
			if !ok {
				continue
			}
			st, ok := tn.Type().Underlying().(*types.Struct)
			if !ok {
				continue
			}
			var fs [][2]string
			for i := 0; i < st.NumFields(); i++ {
				fs = append(fs, [2]string{st.Field(i).Name(), types.TypeString(st.Field(i).Type(), qf)})
			}
			pn.Fields[name] = fs
		}
		idx[path] = pn
	}
	return idx
}

// packageFuncs lists the declared functions and methods of a package (no
// anonymous functions, no synthetic wrappers), sorted by key.
func (e *Engine) packageFuncs(sp *ssa.Package) []*ssa.Function {
	var out []*ssa.Function
	seen := map[*ssa.Function]bool{}
	add := func(fn *ssa.Function) {
		if fn == nil || seen[fn] || fn.Synthetic != "" || fn.Pkg != sp {
			return
		}
		if _, ok := fn.Syntax().(*ast.FuncDecl); !ok {
			return
		}
		seen[fn] = true
		out = append(out, fn)
	}
	for _, m := range sp.Members {
		switch x := m.(type) {
		case *ssa.Function:
			add(x)
		case *ssa.Type:
			for _, t := range []types.Type{x.Type(), types.NewPointer(x.Type())} {
				ms := e.prog.MethodSets.MethodSet(t)
				for i := 0; i < ms.Len(); i++ {
					add(e.prog.MethodValue(ms.At(i)))
				}
			}
		}
	}
	sort.Slice(out, func(i, j int) bool { return relKey(out[i]) < relKey(out[j]) })
	return out
}

func namesPath(verifDir string) string { return filepath.Join(verifDir, "claimed", "names.json") }

func loadNameIndex(verifDir string) NameIndex {
	data, err := os.ReadFile(namesPath(verifDir))
	if err != nil {
		return nil
	}
	idx := NameIndex{}
	if json.Unmarshal(data, &idx) != nil {
		return nil
	}
	return idx
}

func writeNameIndex(verifDir string, idx NameIndex) error {
	data, err := json.MarshalIndent(idx, "", " ")
	if err != nil {
		return err
	}
	return os.WriteFile(namesPath(verifDir), append(data, '\n'), 0o644)
}

// ---- inference ----

// refNames returns the reference description of the function that is now fn.
func (e *Engine) refNames(fn *ssa.Function) *FuncNames {
	if e.names == nil || fn == nil || fn.Pkg == nil {
		return nil
	}
	pn := e.names[fn.Pkg.Pkg.Path()]
	if pn == nil {
		return nil
	}
	key := relKey(fn)
	if r, ok := pn.Funcs[key]; ok {
		return r
	}
	// fn is new: is it the renamed version of a reference function?
	if old := e.oldFuncKey(fn.Pkg.Pkg.Path(), key); old != "" {
		return pn.Funcs[old]
	}
	return nil
}

func recvOfKey(key string) string {
	if strings.HasPrefix(key, "(") {
		if i := strings.Index(key, ")"); i > 0 {
			return key[:i+1]
		}
	}
	return ""
}

// funcRenames computes, once per package, the map old key -> new key for
// reference functions that are gone and whose signature and receiver match
// exactly one function that did not exist in the reference tree.
func (e *Engine) funcRenames(pkgPath string) map[string]string {
	e.mu.Lock()
	defer e.mu.Unlock()
	if e.renames == nil {
		e.renames = map[string]map[string]string{}
	}
	if m, ok := e.renames[pkgPath]; ok {
		return m
	}
	m := map[string]string{}
	e.renames[pkgPath] = m
	sp := e.spkgs[pkgPath]
	if e.names == nil || sp == nil || e.names[pkgPath] == nil {
		return m
	}
	ref := e.names[pkgPath].Funcs
	cur := map[string]*ssa.Function{}
	for _, fn := range e.packageFuncs(sp) {
		cur[relKey(fn)] = fn
	}
	var gone, fresh []string
	for k := range ref {
		if cur[k] == nil {
			gone = append(gone, k)
		}
	}
	for k := range cur {
		if ref[k] == nil {
			fresh = append(fresh, k)
		}
	}
	sort.Strings(gone)
	sort.Strings(fresh)
	for _, g := range gone {
		var cands []string
		for _, f := range fresh {
			if recvOfKey(f) == recvOfKey(g) && sigString(cur[f].Signature, sp.Pkg) == ref[g].Sig {
				cands = append(cands, f)
			}
		}
		// and no other vanished function competes for the same candidate
		if len(cands) != 1 {
			continue
		}
		rivals := 0
		for _, g2 := range gone {
			if recvOfKey(g2) == recvOfKey(g) && ref[g2].Sig == ref[g].Sig {
				rivals++
			}
		}
		if rivals == 1 {
			m[g] = cands[0]
		}
	}
	return m
}

func (e *Engine) newFuncKey(pkgPath, oldKey string) string {
	return e.funcRenames(pkgPath)[oldKey]
}

func (e *Engine) oldFuncKey(pkgPath, newKey string) string {
	for o, n := range e.funcRenames(pkgPath) {
		if n == newKey {
			return o
		}
	}
	return ""
}

// paramAliases returns old-name -> position for parameters whose name changed.
func (e *Engine) paramAliases(fn *ssa.Function) map[string]int {
	ref := e.refNames(fn)
	if ref == nil || len(ref.Params) != len(fn.Params) {
		return nil
	}
	now := map[string]bool{}
	for _, p := range fn.Params {
		now[p.Name()] = true
	}
	var out map[string]int
	for i, old := range ref.Params {
		if old == "" || old == "_" || old == fn.Params[i].Name() || now[old] {
			continue
		}
		if out == nil {
			out = map[string]int{}
		}
		out[old] = i
	}
	return out
}

// resultAliases returns old-name -> new-name for renamed named results.
func (e *Engine) resultAliases(fn *ssa.Function) map[string]string {
	ref := e.refNames(fn)
	if ref == nil || len(ref.Results) != fn.Signature.Results().Len() {
		return nil
	}
	var out map[string]string
	for i, old := range ref.Results {
		nw := fn.Signature.Results().At(i).Name()
		if old == "" || old == "_" || nw == "" || old == nw {
			continue
		}
		if out == nil {
			out = map[string]string{}
		}
		out[old] = nw
	}
	return out
}

// localAlias infers the current name of a reference local that no longer exists
// in fn: the locals of the same type that vanished and those that appeared are
// paired in source order when there are as many of each.
func (e *Engine) localAlias(fn *ssa.Function, old string) string {
	for fn.Parent() != nil {
		fn = fn.Parent()
	}
	ref := e.refNames(fn)
	if ref == nil {
		return ""
	}
	if m := e.resultAliases(fn); m[old] != "" {
		return m[old]
	}
	cur := e.funcNames(fn)
	curSet, refSet := map[string]bool{}, map[string]bool{}
	for _, l := range cur.Locals {
		curSet[l[0]] = true
	}
	for _, p := range cur.Params {
		curSet[p] = true
	}
	for _, l := range ref.Locals {
		refSet[l[0]] = true
	}
	for _, p := range ref.Params {
		refSet[p] = true
	}
	if curSet[old] || !refSet[old] {
		return ""
	}
	typ := ""
	for _, l := range ref.Locals {
		if l[0] == old {
			typ = l[1]
			break
		}
	}
	if typ == "" {
		return ""
	}
	uniq := func(ls [][2]string, other map[string]bool) []string {
		var out []string
		seen := map[string]bool{}
		for _, l := range ls {
			if l[1] == typ && !other[l[0]] && !seen[l[0]] {
				seen[l[0]] = true
				out = append(out, l[0])
			}
		}
		return out
	}
	gone := uniq(ref.Locals, curSet)
	fresh := uniq(cur.Locals, refSet)
	if len(gone) != len(fresh) {
		return ""
	}
	for i, g := range gone {
		if g == old {
			return fresh[i]
		}
	}
	return ""
}

// fieldAlias infers the current name of a struct field that was renamed in
// place (same position, same type, same number of fields).
func (e *Engine) fieldAlias(named *types.Named, old string) string {
	if e.names == nil || named.Obj().Pkg() == nil {
		return ""
	}
	pn := e.names[named.Obj().Pkg().Path()]
	if pn == nil {
		return ""
	}
	ref := pn.Fields[named.Obj().Name()]
	st, ok := named.Underlying().(*types.Struct)
	if !ok || len(ref) != st.NumFields() {
		return ""
	}
	qf := types.RelativeTo(named.Obj().Pkg())
	for i, f := range ref {
		if f[0] == old {
			nf := st.Field(i)
			if nf.Name() != old && types.TypeString(nf.Type(), qf) == f[1] {
				// the old name must be gone altogether
				for j := 0; j < st.NumFields(); j++ {
					if st.Field(j).Name() == old {
						return ""
					}
				}
				return nf.Name()
			}
		}
	}
	return ""
}

// contractOf finds the contract of a function, also under the name it had in
// the reference tree.
func (e *Engine) contractOf(fn *ssa.Function) *Contract {
	if fn == nil {
		return nil
	}
	if ct, ok := e.contracts[fnKey(fn)]; ok {
		if ct.Standalone {
			return nil
		}
		return ct
	}
	if fn.Pkg == nil || e.names == nil {
		return nil
	}
	if old := e.oldFuncKey(fn.Pkg.Pkg.Path(), relKey(fn)); old != "" {
		return e.contracts[fn.Pkg.Pkg.Path()+"."+old]
	}
	return nil
}

func (e *Engine) contractMap(key string, fn *ssa.Function) (*Contract, bool) {
	ct := e.contractOf(fn)
	return ct, ct != nil
}

// wasCalled: form (a callee name as written in a contract: f, (T).m, pkg.f) is
// what fn was called in the reference tree.
func (e *Engine) wasCalled(fn *ssa.Function, form string) bool {
	if fn == nil || fn.Pkg == nil || e.names == nil {
		return false
	}
	path := fn.Pkg.Pkg.Path()
	old := e.oldFuncKey(path, relKey(fn))
	if old == "" {
		return false
	}
	if old == form || path+"."+old == form {
		return true
	}
	// bare method or function name
	if i := strings.LastIndex(old, "."); i >= 0 && old[i+1:] == form {
		return true
	}
	return false
}

// forceCover: GOVC_FORCECOVER=1 generates the vacuity guards also for contracts
// marked nocover (diagnostic runs: an `unsat` guard is a vacuous proof).
func forceCover() bool { return os.Getenv("GOVC_FORCECOVER") != "" }
