package main

import (
	"fmt"
	"go/token"
	"go/types"
	"os"
	"path/filepath"
	"sort"
	"strings"
	"sync"

	"golang.org/x/tools/go/packages"
	"golang.org/x/tools/go/ssa"
	"golang.org/x/tools/go/ssa/ssautil"
)

type Engine struct {
	repo      string
	verifDir  string
	modPath   string
	fset      *token.FileSet
	prog      *ssa.Program
	pkgs      []*packages.Package
	spkgs     map[string]*ssa.Package
	contracts map[string]*Contract
	all       []*Contract
	libs      map[Mode]*SpecLib
	funcIDs   map[*ssa.Function]int
	mu        sync.Mutex
	globStore map[string]bool // globals stored outside init
	sigContracts map[string]*Contract
	constMaps  map[*ssa.Global][]*ssa.Const
	constMapOK map[*ssa.Global]bool
	globOnce  sync.Once
	inlinable map[*ssa.Function]bool
	tags      string
	overlay   map[string][]byte
	names     NameIndex // reference names (claimed/names.json) for rename inference
	renames   map[string]map[string]string
	infoOnce  sync.Once
	infos     map[*types.Package]*types.Info
}

type SpecFn struct {
	name   string
	params []string
	ret    string
}

type SpecLib struct {
	text  string
	funcs map[string]*SpecFn
}

func loadEngine(repo, verifDir string, patterns []string, tags string, overlay map[string][]byte) (*Engine, error) {
	e := &Engine{repo: repo, verifDir: verifDir, spkgs: map[string]*ssa.Package{}, libs: map[Mode]*SpecLib{}, funcIDs: map[*ssa.Function]int{}, tags: tags, overlay: overlay}
	e.modPath = "github.com/arnodel/golua"
	if data, err := os.ReadFile(filepath.Join(repo, "go.mod")); err == nil {
		for _, l := range strings.Split(string(data), "\n") {
			if strings.HasPrefix(l, "module ") {
				e.modPath = strings.TrimSpace(l[7:])
			}
		}
	}
	cfg := &packages.Config{Mode: packages.LoadAllSyntax, Dir: repo, BuildFlags: []string{"-tags=" + tags}, Overlay: overlay,
		Env: append(os.Environ(), "GOFLAGS=-mod=mod", "GOPROXY=off", "GOSUMDB=off", "GOTOOLCHAIN=local")}
	pkgs, err := packages.Load(cfg, patterns...)
	if err != nil {
		return nil, err
	}
	var errs []string
	packages.Visit(pkgs, nil, func(p *packages.Package) {
		for _, e := range p.Errors {
			errs = append(errs, e.Error())
		}
	})
	if len(errs) > 0 {
		return nil, fmt.Errorf("package load errors: %s", strings.Join(errs, "; "))
	}
	e.pkgs = pkgs
	if len(pkgs) > 0 {
		e.fset = pkgs[0].Fset
	}
	prog, _ := ssautil.AllPackages(pkgs, ssa.GlobalDebug)
	prog.Build()
	e.prog = prog
	for _, p := range prog.AllPackages() {
		e.spkgs[p.Pkg.Path()] = p
	}
	byKey, all, err := loadContracts(repo, e.modPath)
	if err != nil {
		return nil, err
	}
	e.contracts, e.all = byKey, all
	e.names = loadNameIndex(verifDir)
	return e, nil
}

func (e *Engine) pkgByPath(path string) *types.Package {
	if sp, ok := e.spkgs[path]; ok {
		return sp.Pkg
	}
	return nil
}

func (e *Engine) allTypesPkgs() []*types.Package {
	var out []*types.Package
	var keys []string
	for k := range e.spkgs {
		keys = append(keys, k)
	}
	sort.Strings(keys)
	for _, k := range keys {
		out = append(out, e.spkgs[k].Pkg)
	}
	return out
}

func (e *Engine) funcID(f *ssa.Function) int {
	e.mu.Lock()
	defer e.mu.Unlock()
	if id, ok := e.funcIDs[f]; ok {
		return id
	}
	id := 1000000 + len(e.funcIDs)
	e.funcIDs[f] = id
	return id
}

// findFunc resolves a contract key to an ssa function.
func (e *Engine) findFunc(pkgPath, key string) *ssa.Function {
	if fn := e.findFunc0(pkgPath, key); fn != nil {
		return fn
	}
	base, anon := key, ""
	if !strings.HasPrefix(key, "(") {
		if i := strings.Index(key, "$"); i > 0 {
			base, anon = key[:i], key[i:]
		}
	} else if i := strings.LastIndex(key, "$"); i > strings.Index(key, ")") {
		base, anon = key[:i], key[i:]
	}
	if nk := e.newFuncKey(pkgPath, base); nk != "" {
		return e.findFunc0(pkgPath, nk+anon)
	}
	return nil
}

func (e *Engine) findFunc0(pkgPath, key string) *ssa.Function {
	sp := e.spkgs[pkgPath]
	if sp == nil {
		return nil
	}
	if !strings.HasPrefix(key, "(") {
		if i := strings.Index(key, "$"); i > 0 {
			// anonymous function parent$N
			parent := sp.Func(key[:i])
			if parent == nil {
				return nil
			}
			for _, an := range parent.AnonFuncs {
				if an.Name() == key {
					return an
				}
			}
			return nil
		}
		return sp.Func(key)
	}
	// method: (T).m or (*T).m
	close := strings.Index(key, ")")
	recv := key[1:close]
	name := key[close+2:]
	ptr := strings.HasPrefix(recv, "*")
	recv = strings.TrimPrefix(recv, "*")
	obj := sp.Pkg.Scope().Lookup(recv)
	if obj == nil {
		return nil
	}
	var t types.Type = obj.Type()
	if ptr {
		t = types.NewPointer(t)
	}
	sel := e.prog.MethodSets.MethodSet(t).Lookup(sp.Pkg, name)
	if sel == nil {
		return nil
	}
	fn := e.prog.MethodValue(sel)
	if fn != nil && fn.Synthetic != "" && !ptr {
		return fn
	}
	return fn
}

func (e *Engine) invokeContract(call *ssa.CallCommon) *Contract {
	// key: "iface:<TypeName>.<Method>" in the package declaring the interface
	recvT := call.Value.Type()
	if n, ok := recvT.(*types.Named); ok && n.Obj().Pkg() != nil {
		k := n.Obj().Pkg().Path() + ".iface:" + n.Obj().Name() + "." + call.Method.Name()
		if ct, ok := e.contracts[k]; ok {
			return ct
		}
	}
	return nil
}

func (e *Engine) funcTypeContract(call *ssa.CallCommon) *Contract {
	t := call.Value.Type()
	if n, ok := t.(*types.Named); ok && n.Obj().Pkg() != nil {
		k := n.Obj().Pkg().Path() + ".functype:" + n.Obj().Name()
		if ct, ok := e.contracts[k]; ok {
			return ct
		}
	}
	// unnamed function types: `func functype:func(string)(rune,int)` in any package,
	// matched on the signature with spaces removed
	if sig, ok := t.Underlying().(*types.Signature); ok {
		want := "functype:" + strings.ReplaceAll(types.TypeString(sig, func(p *types.Package) string { return p.Name() }), " ", "")
		e.mu.Lock()
		if e.sigContracts == nil {
			e.sigContracts = map[string]*Contract{}
			for _, ct := range e.contracts {
				if strings.HasPrefix(ct.Key, "functype:func(") {
					e.sigContracts[strings.ReplaceAll(ct.Key, " ", "")] = ct
				}
			}
		}
		ct := e.sigContracts[want]
		e.mu.Unlock()
		return ct
	}
	return nil
}

// ---- globals ----

func (e *Engine) scanGlobalStores() {
	e.globStore = map[string]bool{}
	var rootGlobal func(v ssa.Value, depth int) *ssa.Global
	rootGlobal = func(v ssa.Value, depth int) *ssa.Global {
		if depth > 6 {
			return nil
		}
		switch x := v.(type) {
		case *ssa.Global:
			return x
		case *ssa.FieldAddr:
			return rootGlobal(x.X, depth+1)
		case *ssa.IndexAddr:
			return rootGlobal(x.X, depth+1)
		}
		return nil
	}
	for fn := range ssautil.AllFunctions(e.prog) {
		if fn.Pkg == nil || !strings.HasPrefix(fn.Pkg.Pkg.Path(), e.modPath) {
			continue
		}
		isInit := fn.Name() == "init" || strings.HasPrefix(fn.Name(), "init#")
		for _, b := range fn.Blocks {
			for _, in := range b.Instrs {
				switch x := in.(type) {
				case *ssa.Store:
					if g := rootGlobal(x.Addr, 0); g != nil && !isInit {
						e.globStore[g.Pkg.Pkg.Path()+"."+g.Name()] = true
					}
				default:
					// address of a global escaping as a call argument / stored value
					if isInit {
						continue
					}
					var ops []*ssa.Value
					ops = in.Operands(ops)
					for _, op := range ops {
						if op == nil || *op == nil {
							continue
						}
						if g, ok := (*op).(*ssa.Global); ok {
							switch y := in.(type) {
							case *ssa.UnOp:
								_ = y // load
							case *ssa.FieldAddr, *ssa.IndexAddr, *ssa.DebugRef:
							default:
								e.globStore[g.Pkg.Pkg.Path()+"."+g.Name()] = true
							}
						}
					}
				}
			}
		}
	}
}

// constMapValues: for a package-level map that is built once in init from a
// composite literal with constant values and is only ever read (lookup, range,
// len) anywhere in the module, the set of values it holds.
func (e *Engine) constMapValues(g *ssa.Global) ([]*ssa.Const, bool) {
	e.mu.Lock()
	if e.constMaps == nil {
		e.constMaps = map[*ssa.Global][]*ssa.Const{}
		e.constMapOK = map[*ssa.Global]bool{}
	}
	if ok, done := e.constMapOK[g]; done {
		vals := e.constMaps[g]
		e.mu.Unlock()
		return vals, ok
	}
	e.mu.Unlock()
	vals, ok := e.computeConstMap(g)
	e.mu.Lock()
	e.constMaps[g], e.constMapOK[g] = vals, ok
	e.mu.Unlock()
	return vals, ok
}

func (e *Engine) computeConstMap(g *ssa.Global) ([]*ssa.Const, bool) {
	if g.Pkg == nil || !e.constGlobal(g.Pkg.Pkg.Path()+"."+g.Name()) {
		return nil, false
	}
	if _, isMap := g.Type().(*types.Pointer).Elem().Underlying().(*types.Map); !isMap {
		return nil, false
	}
	init := g.Pkg.Func("init")
	if init == nil {
		return nil, false
	}
	var mk *ssa.MakeMap
	nstores := 0
	for _, b := range init.Blocks {
		for _, in := range b.Instrs {
			if st, ok := in.(*ssa.Store); ok && st.Addr == g {
				nstores++
				mk, _ = st.Val.(*ssa.MakeMap)
			}
		}
	}
	if nstores != 1 || mk == nil || mk.Referrers() == nil {
		return nil, false
	}
	var vals []*ssa.Const
	for _, ref := range *mk.Referrers() {
		switch r := ref.(type) {
		case *ssa.MapUpdate:
			cv, ok := r.Value.(*ssa.Const)
			if !ok || r.Map != mk {
				return nil, false
			}
			vals = append(vals, cv)
		case *ssa.Store:
			if r.Addr != g {
				return nil, false
			}
		case *ssa.DebugRef:
		default:
			return nil, false
		}
	}
	// every load of the global anywhere is only looked up, ranged over or measured
	for fn := range ssautil.AllFunctions(e.prog) {
		for _, b := range fn.Blocks {
			for _, in := range b.Instrs {
				ld, ok := in.(*ssa.UnOp)
				if !ok || ld.X != g || ld.Referrers() == nil {
					continue
				}
				for _, ref := range *ld.Referrers() {
					switch r := ref.(type) {
					case *ssa.Lookup:
						if r.X != ld {
							return nil, false
						}
					case *ssa.Range, *ssa.DebugRef:
					case *ssa.Call:
						if bi, ok := r.Call.Value.(*ssa.Builtin); !ok || bi.Name() != "len" {
							return nil, false
						}
					default:
						return nil, false
					}
				}
			}
		}
	}
	return vals, len(vals) > 0
}

// constGlobal: never stored to (nor address-escaped) outside init.
func (e *Engine) constGlobal(name string) bool {
	e.globOnce.Do(e.scanGlobalStores)
	return !e.globStore[name]
}

// globalInit returns the initial value term of a constant global when it is
// statically known (zero value, or a constant / MakeInterface(constant)
// stored by the package initialiser).
func (e *Engine) globalInit(c *Ctx, g *ssa.Global) (string, bool) {
	name := g.Pkg.Pkg.Path() + "." + g.Name()
	if !e.constGlobal(name) {
		return "", false
	}
	et := g.Type().(*types.Pointer).Elem()
	init := g.Pkg.Func("init")
	var stored ssa.Value
	n := 0
	complex := false
	if init != nil {
		for _, b := range init.Blocks {
			for _, in := range b.Instrs {
				switch x := in.(type) {
				case *ssa.Store:
					if x.Addr == g {
						stored = x.Val
						n++
					} else if fa, ok := x.Addr.(*ssa.FieldAddr); ok && fa.X == g {
						complex = true
					} else if ia, ok := x.Addr.(*ssa.IndexAddr); ok && ia.X == g {
						complex = true
					}
				}
			}
		}
	}
	if complex && n == 0 {
		// array of scalars initialised element by element with constants
		if at, ok := et.Underlying().(*types.Array); ok && init != nil {
			term := c.sorts.zero(et)
			okAll := true
			for _, b := range init.Blocks {
				for _, in := range b.Instrs {
					st, ok := in.(*ssa.Store)
					if !ok {
						continue
					}
					ia, ok := st.Addr.(*ssa.IndexAddr)
					if !ok || ia.X != g {
						if fa, ok := st.Addr.(*ssa.FieldAddr); ok && fa.X == g {
							okAll = false
						}
						continue
					}
					ik, ok1 := ia.Index.(*ssa.Const)
					vk, ok2 := st.Val.(*ssa.Const)
					if !ok1 || !ok2 {
						okAll = false
						continue
					}
					is, ok3 := c.sorts.constTerm(ik.Value, types.Typ[types.Int])
					vs, ok4 := c.sorts.constTerm(vk.Value, at.Elem())
					if !ok3 || !ok4 {
						okAll = false
						continue
					}
					term = fmt.Sprintf("(store %s %s %s)", term, is, vs)
				}
			}
			if okAll {
				c.note("package-level constant array (no store outside init): " + name)
				return term, true
			}
		}
		return "", false
	}
	if complex || n > 1 {
		return "", false
	}
	if n == 0 {
		c.note("package-level constant (no store outside init, zero value): " + name)
		return c.sorts.zero(et), true
	}
	switch v := stored.(type) {
	case *ssa.Const:
		if s, ok := c.sorts.constTerm(v.Value, et); ok {
			c.note("package-level constant (no store outside init): " + name)
			return s, true
		}
	case *ssa.Call:
		// var ErrX = errors.New("...") / fmt.Errorf(...): an unknown but non-nil error value
		if callee := v.Call.StaticCallee(); callee != nil && isIfaceType(et) {
			k := fnKey(callee)
			if k == "errors.New" || k == "fmt.Errorf" {
				c.note("package-level error value (no store outside init, non-nil): " + name)
				x := c.decl("glob_"+sanitize(g.Name()), "Iface")
				c.assume("true", fmt.Sprintf("(not ((_ is if_nil) %s))", x))
				return x, true
			}
		}
	case *ssa.MakeInterface:
		if k, ok := v.X.(*ssa.Const); ok {
			if ct := c.sorts.ifaceCtor(v.X.Type()); ct != nil {
				if s, ok := c.sorts.constTerm(k.Value, v.X.Type()); ok {
					c.note("package-level constant (no store outside init): " + name)
					return fmt.Sprintf("(%s %s)", ct.name, s), true
				}
			}
		}
	}
	return "", false
}

// ---- spec library ----

func (e *Engine) specLib(m Mode) *SpecLib {
	e.mu.Lock()
	defer e.mu.Unlock()
	if l, ok := e.libs[m]; ok {
		return l
	}
	l := &SpecLib{funcs: map[string]*SpecFn{}}
	path := filepath.Join(e.verifDir, "spec", m.String()+".smt2")
	data, err := os.ReadFile(path)
	if err == nil {
		l.text = string(data)
		parseSpecLib(l)
	}
	e.libs[m] = l
	return l
}

func parseSpecLib(l *SpecLib) {
	text := stripComments(l.text)
	for i := 0; i < len(text); i++ {
		for _, kw := range []string{"(define-fun-rec spec.", "(define-fun spec.", "(declare-fun spec."} {
			if strings.HasPrefix(text[i:], kw) {
				j := i + len(kw)
				k := j
				for k < len(text) && !strings.ContainsRune(" \t\n(", rune(text[k])) {
					k++
				}
				name := text[j:k]
				// params list
				for k < len(text) && text[k] != '(' {
					k++
				}
				plist, end := readSexp(text, k)
				fn := &SpecFn{name: name}
				if strings.HasPrefix(kw, "(declare-fun") {
					for _, s := range topSexps(plist[1 : len(plist)-1]) {
						fn.params = append(fn.params, s)
					}
				} else {
					for _, p := range topSexps(plist[1 : len(plist)-1]) {
						inner := strings.TrimSpace(p[1 : len(p)-1])
						sp := strings.IndexAny(inner, " \t\n")
						fn.params = append(fn.params, strings.TrimSpace(inner[sp+1:]))
					}
				}
				// return sort
				k = end
				for k < len(text) && strings.ContainsRune(" \t\n", rune(text[k])) {
					k++
				}
				if text[k] == '(' {
					r, _ := readSexp(text, k)
					fn.ret = r
				} else {
					m := k
					for m < len(text) && !strings.ContainsRune(" \t\n()", rune(text[m])) {
						m++
					}
					fn.ret = text[k:m]
				}
				fn.ret = normSort(fn.ret)
				for pi := range fn.params {
					fn.params[pi] = normSort(fn.params[pi])
				}
				l.funcs[name] = fn
			}
		}
	}
}

func normSort(s string) string {
	s = strings.Join(strings.Fields(s), " ")
	switch s {
	case "U", "(_ BitVec 64)":
		return "(_ BitVec 64)"
	case "F", "Float64", "(_ FloatingPoint 11 53)":
		return "Float64"
	}
	return s
}

func stripComments(s string) string {
	var out []string
	for _, l := range strings.Split(s, "\n") {
		if i := strings.Index(l, ";"); i >= 0 {
			l = l[:i]
		}
		out = append(out, l)
	}
	return strings.Join(out, "\n")
}

func readSexp(s string, i int) (string, int) {
	depth := 0
	for j := i; j < len(s); j++ {
		if s[j] == '(' {
			depth++
		} else if s[j] == ')' {
			depth--
			if depth == 0 {
				return s[i : j+1], j + 1
			}
		}
	}
	return s[i:], len(s)
}

func topSexps(s string) []string {
	var out []string
	i := 0
	for i < len(s) {
		if strings.ContainsRune(" \t\n", rune(s[i])) {
			i++
			continue
		}
		if s[i] == '(' {
			x, end := readSexp(s, i)
			out = append(out, x)
			i = end
			continue
		}
		j := i
		for j < len(s) && !strings.ContainsRune(" \t\n()", rune(s[j])) {
			j++
		}
		out = append(out, s[i:j])
		i = j
	}
	return out
}
