package main

import (
	"bytes"
	"context"
	"fmt"
	"os"
	"os/exec"
	"path/filepath"
	"strings"
	"sync"
	"time"
)

type SolveResult struct {
	Status  string // unsat sat unknown timeout error
	Solver  string
	Ms      int64
	Model   map[string]string // label -> value s-expr
	Output  string
	Script  string
	Agreed  []string // solvers agreeing (thorough)
	Retries int
}

type solverSpec struct {
	name string
	args func(timeoutS int, file string) []string
	bin  string
}

var solvers = []solverSpec{
	{name: "z3-new", bin: "z3-new", args: func(t int, f string) []string { return []string{fmt.Sprintf("-T:%d", t), "-smt2", f} }},
	{name: "z3", bin: "z3", args: func(t int, f string) []string { return []string{fmt.Sprintf("-T:%d", t), "-smt2", f} }},
	{name: "cvc5", bin: "cvc5", args: func(t int, f string) []string {
		return []string{fmt.Sprintf("--tlimit=%d", t*1000), "--fp-exp", "--lang=smt2", f}
	}},
}

// portfolio: further configurations raced in the retry phase.  Quantified
// queries that one configuration decides in under a second can run into the
// time limit with another random seed (and vice versa), so an obligation that
// the default configurations left undecided is retried with several seeds.
func z3Variant(bin, label string, opts ...string) solverSpec {
	return solverSpec{name: label, bin: bin, args: func(t int, f string) []string {
		return append(append([]string{fmt.Sprintf("-T:%d", t), "-smt2"}, opts...), f)
	}}
}

var portfolio = []solverSpec{
	z3Variant("z3", "z3/seed1", "smt.random_seed=1"),
	z3Variant("z3-new", "z3-new/seed1", "smt.random_seed=1"),
	z3Variant("z3", "z3/seed2", "smt.random_seed=2"),
	z3Variant("z3", "z3/eager100", "smt.qi.eager_threshold=100"),
	z3Variant("z3-new", "z3-new/seed2", "smt.random_seed=2"),
	z3Variant("z3", "z3/seed3", "smt.random_seed=3"),
}

// script assembles the SMT-LIB query for one obligation.
func (fv *FuncVC) script(o *Obl, eng *Engine, withModel bool) string {
	c := fv.Ctx
	var b strings.Builder
	b.WriteString("(set-option :produce-models true)\n")
	b.WriteString(c.sorts.prelude())
	lib := eng.specLib(c.mode)
	b.WriteString(lib.text)
	b.WriteString("\n")
	n := o.PreLen
	if n > len(c.pre) {
		n = len(c.pre)
	}
	for _, l := range c.pre[:n] {
		if o.Cover && strings.HasPrefix(l, "(assert") && strings.Contains(l, "(forall (") {
			// vacuity (reachability) queries expect `sat`: quantified hypotheses are left out so that
			// the solvers can build a model (a contradiction among the ground facts is still found)
			continue
		}
		b.WriteString(l)
		b.WriteByte('\n')
	}
	fmt.Fprintf(&b, "; obligation %s/%s  (%s)\n", fv.Key, o.Name, o.Desc)
	if o.Guard != "" && o.Guard != "true" {
		fmt.Fprintf(&b, "(assert %s)\n", o.Guard)
	}
	fmt.Fprintf(&b, "(assert (not %s))\n", o.Goal)
	b.WriteString("(check-sat)\n")
	if withModel {
		var terms []string
		for _, p := range fv.Params {
			terms = append(terms, p[1])
		}
		if len(terms) > 0 {
			fmt.Fprintf(&b, "(get-value (%s))\n", strings.Join(terms, " "))
		}
		for _, ets := range fv.ElemTerms {
			fmt.Fprintf(&b, "(get-value (%s))\n", strings.Join(ets, " "))
		}
		for _, r := range fv.Results {
			// results may be defined after the obligation's prelude window
			if definedWithin(c.pre[:n], r[1]) || !strings.Contains(r[1], "!") {
				fmt.Fprintf(&b, "(get-value (%s))\n", r[1])
			}
		}
		if o.Extra != "" {
			b.WriteString(o.Extra)
		}
	}
	return b.String()
}

func definedWithin(pre []string, sym string) bool {
	needle1 := "(define-fun " + sym + " "
	needle2 := "(declare-const " + sym + " "
	for i := len(pre) - 1; i >= 0; i-- {
		if strings.HasPrefix(pre[i], needle1) || strings.HasPrefix(pre[i], needle2) {
			return true
		}
	}
	return false
}

func runSolver(ctx context.Context, sp solverSpec, file string, timeoutS int) (status, out string, ms int64) {
	start := time.Now()
	cctx, cancel := context.WithTimeout(ctx, time.Duration(timeoutS+2)*time.Second)
	defer cancel()
	cmd := exec.CommandContext(cctx, sp.bin, sp.args(timeoutS, file)...)
	var buf bytes.Buffer
	cmd.Stdout = &buf
	cmd.Stderr = &buf
	cmd.Run()
	ms = time.Since(start).Milliseconds()
	out = buf.String()
	// skip solver warnings (e.g. z3: "'not' cannot be used in patterns") before the answer
	for strings.HasPrefix(out, "WARNING") || strings.HasPrefix(out, "(warning") {
		i := strings.Index(out, "\n")
		if i < 0 {
			break
		}
		out = out[i+1:]
	}
	first := strings.TrimSpace(strings.SplitN(out, "\n", 2)[0])
	switch first {
	case "unsat", "sat", "unknown":
		return first, out, ms
	case "timeout":
		return "timeout", out, ms
	}
	if cctx.Err() != nil || strings.Contains(out, "timeout") || strings.Contains(out, "interrupted") {
		return "timeout", out, ms
	}
	return "error", out, ms
}

type Solver struct {
	tmp      string
	timeoutS int
	firstS   int
	thorough bool
	wide     bool // race the seed portfolio as well (retry phase)
	sem      chan struct{}
	seq      int
	mu       sync.Mutex
}

func newSolver(timeoutS int, thorough bool, par int) (*Solver, error) {
	tmp, err := os.MkdirTemp("", "govc")
	if err != nil {
		return nil, err
	}
	return &Solver{tmp: tmp, timeoutS: timeoutS, firstS: 5, thorough: thorough, sem: make(chan struct{}, par)}, nil
}

func (s *Solver) close() { os.RemoveAll(s.tmp) }

func (s *Solver) file(script string) string {
	s.mu.Lock()
	s.seq++
	n := s.seq
	s.mu.Unlock()
	f := filepath.Join(s.tmp, fmt.Sprintf("q%d.smt2", n))
	os.WriteFile(f, []byte(script), 0o644)
	return f
}

// solve decides one obligation: quick attempt with z3-new, then a race.
func (s *Solver) solve(fv *FuncVC, o *Obl, eng *Engine) *SolveResult {
	if fv.Eng != nil {
		eng = fv.Eng
	}
	script := fv.script(o, eng, true)
	f := s.file(script)
	defer os.Remove(f)
	res := &SolveResult{Script: script}
	want := "unsat"
	if o.Cover {
		want = "sat"
	}
	timeout := s.timeoutS
	if fv.Contract != nil && fv.Contract.Timeout > 0 && fv.Contract.Timeout > timeout {
		timeout = fv.Contract.Timeout
	}
	if o.Cover && timeout > 10 {
		timeout = 10 // vacuity guards are best effort
	}
	s.sem <- struct{}{}
	st, out, ms := runSolver(context.Background(), solvers[0], f, s.firstS)
	<-s.sem
	res.Status, res.Output, res.Ms, res.Solver = st, out, ms, solvers[0].name
	if st != "unsat" && st != "sat" {
		// race all solvers with the full timeout
		type r struct {
			st, out, name string
			ms            int64
		}
		ctx, cancel := context.WithCancel(context.Background())
		race := solvers
		if !o.Cover {
			if s.wide {
				race = append(append([]solverSpec{}, solvers...), portfolio...)
			} else {
				race = append(append([]solverSpec{}, solvers...), portfolio[:2]...)
			}
		}
		ch := make(chan r, len(race))
		for _, sp := range race {
			sp := sp
			go func() {
				s.sem <- struct{}{}
				defer func() { <-s.sem }()
				if ctx.Err() != nil {
					ch <- r{"cancelled", "", sp.name, 0}
					return
				}
				st, out, ms := runSolver(ctx, sp, f, timeout)
				ch <- r{st, out, sp.name, ms}
			}()
		}
		var outs []string
		for range race {
			x := <-ch
			outs = append(outs, fmt.Sprintf("[%s] %s %dms", x.name, x.st, x.ms))
			if x.st == "unsat" || x.st == "sat" {
				res.Status, res.Output, res.Ms, res.Solver = x.st, x.out, x.ms, x.name
				break
			}
			if res.Status != "unsat" && res.Status != "sat" {
				if x.st != "cancelled" {
					res.Status = x.st
					res.Output = strings.Join(outs, "\n") + "\n" + x.out
				}
			}
		}
		cancel()
		res.Retries = 1
	}
	// thorough: BV/FP results must be confirmed by a second solver
	if s.thorough && res.Status == want && fv.Ctx.mode == BV && !o.Cover {
		res.Agreed = []string{res.Solver}
		for _, sp := range solvers {
			if sp.name == res.Solver {
				continue
			}
			s.sem <- struct{}{}
			st, _, _ := runSolver(context.Background(), sp, f, timeout)
			<-s.sem
			if st == res.Status {
				res.Agreed = append(res.Agreed, sp.name)
				break
			}
			if (st == "sat" || st == "unsat") && st != res.Status {
				res.Status = "error"
				res.Output = fmt.Sprintf("solver disagreement: %s says %s, %s says %s", res.Solver, want, sp.name, st)
				break
			}
		}
	}
	if res.Status == "sat" {
		res.Model = parseModel(res.Output)
	}
	return res
}

// parseModel extracts (term value) pairs from get-value output.
func parseModel(out string) map[string]string {
	m := map[string]string{}
	i := strings.Index(out, "\n")
	if i < 0 {
		return m
	}
	rest := out[i+1:]
	for j := 0; j < len(rest); j++ {
		if rest[j] == '(' {
			sx, end := readSexp(rest, j)
			// sx = ((t v) (t v) ...)
			inner := strings.TrimSpace(sx[1 : len(sx)-1])
			for _, pair := range topSexps(inner) {
				if len(pair) < 2 || pair[0] != '(' {
					continue
				}
				parts := topSexps(pair[1 : len(pair)-1])
				if len(parts) == 2 {
					m[parts[0]] = parts[1]
					m[strings.Join(strings.Fields(parts[0]), " ")] = parts[1]
				}
			}
			j = end - 1
		}
	}
	return m
}
