package main

import (
	"fmt"
	"go/ast"
	"go/token"
	"go/types"
	"strings"

	"golang.org/x/tools/go/ssa"
)

type FuncVC struct {
	Contract *Contract
	Key      string
	Ctx      *Ctx
	Obls     []*Obl
	Err      string // attach / subset errors
	Missing  bool
	Params   [][2]string // name, term for model extraction
	ParamT   []types.Type
	Results  [][2]string
	// ElemTerms: for parameters that are strings or slices of basic integers, the
	// terms whose model values give the length and the first elements (replay)
	ElemTerms map[int][]string
	Fn       *ssa.Function
	Eng      *Engine // engine (build configuration) this function was loaded with
}

func (e *Engine) modeOf(ct *Contract) Mode {
	if ct.ModeSet {
		return ct.Mode
	}
	return BV
}

func contractUsesGhost(ct *Contract) bool {
	for _, cl := range ct.Clauses {
		if cl.Kind == "charges" || cl.Kind == "allocs" || strings.Contains(cl.Text, "ghost(") {
			return true
		}
	}
	return false
}

// allocSlack: `allocs charged [slack N]` turns every allocation of a
// program-chosen size in the function into an obligation "the memory charged so
// far in this call (ghost mem) plus N bytes covers it".
func allocSlack(ct *Contract) (int64, bool) {
	if ct == nil {
		return 0, false
	}
	for _, cl := range ct.byKind("allocs") {
		f := strings.Fields(cl.Text)
		if len(f) >= 1 && f[0] == "charged" {
			var n int64
			if len(f) >= 3 && f[1] == "slack" {
				fmt.Sscanf(f[2], "%d", &n)
			}
			return n, true
		}
	}
	return 0, false
}

// verifyFunc generates all obligations of one function under contract.
func (e *Engine) verifyFunc(ct *Contract) (res *FuncVC) {
	key := ct.PkgPath + "." + ct.Key
	res = &FuncVC{Contract: ct, Key: key, Eng: e}
	defer func() {
		if r := recover(); r != nil {
			res.Err = fmt.Sprintf("engine panic: %v", r)
			if os_getenv_debug() {
				panic(r)
			}
		}
	}()
	if ct.IsLemma {
		return e.verifyLemma(ct, res)
	}
	var fn *ssa.Function
	if ct.IsFrag {
		fn = e.findFunc(ct.PkgPath, fragFuncName(ct.Key))
	} else {
		fn = e.findFunc(ct.PkgPath, ct.Key)
	}
	if fn == nil {
		res.Missing = true
		res.Err = "function not found: " + key
		return res
	}
	res.Fn = fn
	for _, cl := range ct.Clauses {
		cl.Attached = 0
	}
	c := newCtx(e, e.modeOf(ct), key)
	res.Ctx = c
	c.rte = ct.RTE
	c.coverCalls = !ct.NoCover || forceCover()
	lib := e.specLib(c.mode)
	_ = lib
	fr := c.newFrame(fn, 0)
	fr.top = true
	fr.contract = ct
	st := &State{reach: "true", heaps: map[string]string{}, ghost: map[string]string{}}
	st.alloc = c.decl("alloc0", "Int")
	c.assume("true", fmt.Sprintf("(>= %s 1)", st.alloc))
	c.epochAlloc[st.epoch] = st.alloc
	st.ghost["cpu"] = "0"
	st.ghost["mem"] = "0"
	st.ghost["sent"] = "0"
	var args []Val
	for _, p := range fn.Params {
		srt := c.sorts.sortOf(p.Type())
		name := q("p_" + p.Name())
		c.emit(fmt.Sprintf("(declare-const %s %s)", name, srt))
		c.assumeRange("true", p.Type(), name, 0)
		v := c.mkVal(p.Type(), name)
		c.assumeAllocated("true", st.alloc, p.Type(), name, 0)
		args = append(args, v)
		res.Params = append(res.Params, [2]string{p.Name(), name})
		res.ParamT = append(res.ParamT, p.Type())
		if terms := c.elemTerms(st, p.Type(), name); len(terms) > 0 {
			if res.ElemTerms == nil {
				res.ElemTerms = map[int][]string{}
			}
			res.ElemTerms[len(res.Params)-1] = terms
		}
	}
	fr.params = args
	// a closure verified on its own: its captured variables are unknown cells
	var freevars []Val
	for _, fv := range fn.FreeVars {
		name := q("fv_" + fv.Name())
		c.emit(fmt.Sprintf("(declare-const %s Int)", name))
		c.assume("true", fmt.Sprintf("(and (> %s 0) (< %s %s))", name, name, st.alloc))
		freevars = append(freevars, c.mkVal(fv.Type(), name))
		fr.vals[fv] = freevars[len(freevars)-1]
	}
	entry := st.clone()
	env := c.specEnv(fr, st, entry, nil)
	env.pos = true
	for _, cl := range ct.byKind("requires") {
		c.assume("true", c.specBool(env, cl.Expr))
	}
	env.pos = false
	preLen := len(c.pre)
	rst, rvals := c.execBody(fr, st, args, freevars)
	// results for model extraction
	for i, rv := range rvals {
		if rv.S != "" {
			res.Results = append(res.Results, [2]string{fmt.Sprintf("result%d", i), rv.S})
		}
	}
	penv := c.specEnv(fr, rst, fr.entry, nil)
	c.bindResults(penv, fn, nil, rvals)
	for _, cl := range ct.byKind("ensures") {
		g := c.specBool(penv, cl.Expr)
		c.oblige("ensures", fmt.Sprintf("ensures#%d", cl.Idx), rst.reach, g, c.pos(fn.Pos())).Desc = cl.Text
	}
	for _, cl := range ct.Clauses {
		if cl.InScope && cl.Attached == 0 {
			c.leave("call-site assertion never in scope: " + cl.Text)
		}
		if !cl.InScope && !cl.Never && cl.Attached == 0 && (cl.Kind == "assert_before_call" || cl.Kind == "assert_after_call") {
			// the call the contract speaks about is gone (or is no longer the k-th call
			// to that function): what was asserted there no longer holds anywhere
			o := c.oblige(cl.Kind, fmt.Sprintf("%s:%s/unattached#%d", cl.Kind, cl.Name, cl.Idx), "true", "false", c.pos(fn.Pos()))
			o.Desc = "no call site for: " + cl.Text
		}
	}
	// ghost postconditions are ordinary ensures using ghost(name)
	c.frameObligations(fr, ct, rst, penv)
	c.exitObligations(fr, ct, rst, penv)
	if !ct.NoCover || forceCover() {
		o := c.oblige("cover", "cover/return-reachable", "true", not(rst.reach), c.pos(fn.Pos()))
		o.Cover = true
		o.Desc = "vacuity guard: precondition satisfiable and a normal return is reachable"
		o.PreLen = len(c.pre)
		if len(fr.retReach) == 0 {
			// function never returns normally (always panics): cover the first panic instead
			if len(fr.panics) > 0 {
				o.Goal = not(fr.panics[0].cond)
				o.Name = "cover/exit-reachable"
			}
		}
	}
	_ = preLen
	if len(c.outside) > 0 {
		res.Err = "outside subset: " + strings.Join(c.outside, "; ")
	}
	res.Obls = c.obls
	return res
}

func os_getenv_debug() bool { return debugPanics }

var debugPanics = false

// frameObligations: everything not named by modifies is unchanged.
func (c *Ctx) frameObligations(fr *Frame, ct *Contract, rst *State, penv *SpecEnv) {
	mods := ct.byKind("modifies")
	for _, cl := range mods {
		for _, e := range cl.Exprs {
			if strings.HasPrefix(exprString(e), "everything") {
				return
			}
		}
	}
	entry := fr.entry
	// declared locations evaluated in the entry state
	envOld := *penv
	envOld.cur = entry
	type loc struct {
		p     *Ptr
		whole bool
	}
	byKey := map[string][]loc{}
	wholeHeap := map[string]bool{}
	for _, cl := range mods {
		for _, e := range cl.Exprs {
			s := exprString(e)
			if strings.HasPrefix(s, "all(") {
				callArgs := argOf(e)
				sv := c.specVal(&envOld, callArgs, nil)
				if sl, ok := sv.T.Underlying().(*types.Slice); ok {
					key := c.arrKeyFor(sl.Elem())
					byKey[key] = append(byKey[key], loc{p: &Ptr{Key: key, Base: fmt.Sprintf("(s_arr %s)", sv.S)}, whole: true})
				} else if sv.P != nil {
					byKey[sv.P.Key] = append(byKey[sv.P.Key], loc{p: sv.P, whole: len(sv.P.Path) == 0})
				}
				continue
			}
			if strings.HasPrefix(s, "heap(") {
				if t := envOld.typeOf(argOf(e)); t != nil {
					wholeHeap[c.heapKeyFor(t)] = true
					wholeHeap[c.arrKeyFor(t)] = true
				}
				continue
			}
			p := c.specAddr(&envOld, e)
			if p == nil {
				c.leave("cannot resolve modifies location " + s)
				continue
			}
			byKey[p.Key] = append(byKey[p.Key], loc{p: p})
		}
	}
	if rst.epoch != entry.epoch {
		c.oblige("frame", "frame/havoc", rst.reach, "false", c.pos(fr.fn.Pos())).Desc = "an external call may modify arbitrary state; contract needs `modifies everything()`"
		return
	}
	keys := map[string]bool{}
	for k := range rst.heaps {
		keys[k] = true
	}
	for _, k := range sortedKeys(keys) {
		if strings.HasPrefix(k, "L:") || wholeHeap[k] {
			continue
		}
		fin := rst.heaps[k]
		ini := c.heapSym(entry, k)
		if fin == ini {
			continue
		}
		var goal string
		if strings.HasPrefix(k, "G:") {
			if len(byKey[k]) > 0 {
				continue
			}
			goal = fmt.Sprintf("(= %s %s)", fin, ini)
		} else {
			// group declared paths by base
			var conj []string
			var excl []string
			bases := map[string][]loc{}
			var order []string
			for _, l := range byKey[k] {
				if _, ok := bases[l.p.Base]; !ok {
					order = append(order, l.p.Base)
				}
				bases[l.p.Base] = append(bases[l.p.Base], l)
			}
			for _, b := range order {
				excl = append(excl, fmt.Sprintf("(not (= r!f %s))", b))
				whole := false
				for _, l := range bases[b] {
					if l.whole || len(l.p.Path) == 0 {
						whole = true
					}
				}
				if whole {
					continue
				}
				cur := fmt.Sprintf("(select %s %s)", fin, b)
				oldRoot := fmt.Sprintf("(select %s %s)", ini, b)
				for _, l := range bases[b] {
					cur = c.update(cur, l.p.Path, c.project(oldRoot, l.p.Path))
				}
				conj = append(conj, fmt.Sprintf("(= %s %s)", cur, oldRoot))
			}
			conj = append(conj, fmt.Sprintf("(forall ((r!f Int)) (=> (and (>= r!f 0) (< r!f %s) %s) (= (select %s r!f) (select %s r!f))))",
				entry.alloc, strings.Join(append(excl, "true"), " "), fin, ini))
			goal = and(conj...)
		}
		c.oblige("frame", "frame:"+sanitize(k), rst.reach, goal, c.pos(fr.fn.Pos())).Desc = "locations not listed in modifies are unchanged (" + k + ")"
	}
}

func argOf(e ast.Expr) ast.Expr {
	if call, ok := e.(*ast.CallExpr); ok && len(call.Args) > 0 {
		return call.Args[0]
	}
	return nil
}

func identOf(name string) ast.Expr {
	e, err := parseSpecExpr(name)
	if err != nil {
		return ast.NewIdent(name)
	}
	return e
}

// exitObligations: explicit panics and abnormal exits of callees must be
// declared by `exits`, happen exactly under the declared condition, and
// establish exits_ensures.
func (c *Ctx) exitObligations(fr *Frame, ct *Contract, rst *State, penv *SpecEnv) {
	exits := ct.byKind("exits")
	envOld := *penv
	envOld.cur = fr.entry
	var conds []string
	for _, ex := range exits {
		if ex.When != nil {
			conds = append(conds, c.specBool(&envOld, ex.When))
		} else {
			conds = append(conds, "true")
		}
	}
	for i, pe := range fr.panics {
		if len(exits) == 0 {
			if ct.NoPanic || true {
				o := c.oblige("nopanic", fmt.Sprintf("nopanic:%s", pe.site), pe.cond, "false", c.pos(pe.pos))
				o.Desc = "panic / abnormal exit not declared by an exits clause must be unreachable"
			}
			continue
		}
		var alts []string
		for j, ex := range exits {
			kindOK := "true"
			if pe.kind != "" {
				if pe.kind != ex.Name && ex.Name != "any" {
					kindOK = "false"
				}
			} else if ex.Name != "any" {
				if t := penv.typeOf(identOf(ex.Name)); t != nil && pe.val.S != "" {
					kindOK = c.ifaceTest(pe.val.S, t)
				} else if isStringKind(ex.Name) && pe.val.S != "" {
					kindOK = c.ifaceTest(pe.val.S, types.Typ[types.String])
				}
			}
			alts = append(alts, and(kindOK, conds[j]))
		}
		c.oblige("exits", fmt.Sprintf("exits.when:%s", pe.site), pe.cond, or(alts...), c.pos(pe.pos)).Desc = "abnormal exit only under a declared exits condition and kind"
		for _, cl := range ct.byKind("exits_ensures") {
			eenv := *penv
			eenv.cur = pe.st
			g := c.specBool(&eenv, cl.Expr)
			c.oblige("exits_ensures", fmt.Sprintf("exits_ensures#%d:%s", cl.Idx, pe.site), pe.cond, g, c.pos(pe.pos)).Desc = cl.Text
		}
		_ = i
	}
	for j, ex := range exits {
		if ex.When == nil {
			continue
		}
		c.oblige("exits", fmt.Sprintf("exits.must#%d", j+1), rst.reach, not(conds[j]), c.pos(fr.fn.Pos())).Desc = "no normal return when the exits condition holds: " + ex.Text
	}
}

func isStringKind(s string) bool { return s == "string" }

// ---- lemmas: obligations over spec functions and pure Go functions only ----

func (e *Engine) verifyLemma(ct *Contract, res *FuncVC) *FuncVC {
	c := newCtx(e, e.modeOf(ct), res.Key)
	res.Ctx = c
	st := &State{reach: "true", heaps: map[string]string{}, ghost: map[string]string{}}
	st.alloc = c.decl("alloc0", "Int")
	env := &SpecEnv{c: c, vars: map[string]Val{}, cur: st, old: st, pkg: e.pkgByPath(ct.PkgPath)}
	for _, cl := range ct.byKind("forall") {
		// "x, y int64; f float64"
		for _, grp := range strings.Split(cl.Name, ";") {
			grp = strings.TrimSpace(grp)
			if grp == "" {
				continue
			}
			sp := strings.LastIndex(grp, " ")
			if sp < 0 {
				res.Err = "bad forall clause: " + grp
				return res
			}
			te, err := parseSpecExpr(grp[sp+1:])
			if err != nil {
				res.Err = err.Error()
				return res
			}
			t := env.typeOf(te)
			if t == nil {
				res.Err = "unknown type in forall: " + grp[sp+1:]
				return res
			}
			for _, n := range strings.Split(grp[:sp], ",") {
				n = strings.TrimSpace(n)
				srt := "Int"
				if t != mathIntT {
					srt = c.sorts.sortOf(t)
				}
				name := q("p_" + n)
				c.emit(fmt.Sprintf("(declare-const %s %s)", name, srt))
				if t == mathIntT {
					env.vars[n] = Val{T: mathIntT, S: name}
				} else {
					c.assumeRange("true", t, name, 0)
					env.vars[n] = c.mkVal(t, name)
				}
				res.Params = append(res.Params, [2]string{n, name})
				res.ParamT = append(res.ParamT, t)
			}
		}
	}
	for _, cl := range ct.byKind("let") {
		// "name = expr"
		i := strings.Index(cl.Name, "=")
		ex, err := parseSpecExpr(cl.Name[i+1:])
		if err != nil {
			res.Err = err.Error()
			return res
		}
		v := c.specVal(env, ex, nil)
		if _, isC := isConstV(v); isC {
			v = c.coerce(env, v, nil)
		}
		env.vars[strings.TrimSpace(cl.Name[:i])] = v
	}
	for _, cl := range ct.byKind("requires") {
		c.assume("true", c.specBool(env, cl.Expr))
	}
	for _, cl := range ct.byKind("ensures") {
		g := c.specBool(env, cl.Expr)
		c.oblige("lemma", fmt.Sprintf("ensures#%d", cl.Idx), "true", g, token.Position{Filename: ct.File, Line: cl.Line}).Desc = cl.Text
	}
	if !ct.NoCover {
		o := c.oblige("cover", "cover/hypotheses-satisfiable", "true", "false", token.Position{Filename: ct.File, Line: ct.Line})
		o.Cover = true
	}
	if len(c.outside) > 0 {
		res.Err = "outside subset: " + strings.Join(c.outside, "; ")
	}
	res.Obls = c.obls
	return res
}

func fragFuncName(name string) string { return "verifFrag_" + name }

const replayElems = 24

// elemTerms: terms for the length and the first replayElems elements of a string
// or of a slice of basic integers in the entry state.
func (c *Ctx) elemTerms(st *State, t types.Type, name string) []string {
	idx := func(k int) string {
		if c.mode == BV {
			return fmt.Sprintf("#x%016x", k)
		}
		return fmt.Sprintf("%d", k)
	}
	if isStringType(t) {
		terms := []string{fmt.Sprintf("(str_len %s)", name)}
		for k := 0; k < replayElems; k++ {
			terms = append(terms, fmt.Sprintf("(str_at %s %s)", name, idx(k)))
		}
		return terms
	}
	sl, ok := t.Underlying().(*types.Slice)
	if !ok {
		return nil
	}
	if _, _, isInt := isIntType(sl.Elem()); !isInt {
		return nil
	}
	key := c.arrKeyFor(sl.Elem())
	c.ensureHeapSort(key, sl.Elem())
	h := c.heapSym(st, key)
	terms := []string{fmt.Sprintf("(s_len %s)", name)}
	for k := 0; k < replayElems; k++ {
		var at string
		if c.mode == BV {
			at = fmt.Sprintf("(bvadd (s_off %s) %s)", name, idx(k))
		} else {
			at = fmt.Sprintf("(+ (s_off %s) %s)", name, idx(k))
		}
		terms = append(terms, fmt.Sprintf("(select (select %s (s_arr %s)) %s)", h, name, at))
	}
	return terms
}
