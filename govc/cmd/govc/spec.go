package main

// Translation of contract expressions (Go expression syntax plus spec-only
// forms) to SMT terms over the symbolic state.

import (
	"bytes"
	"fmt"
	"go/ast"
	"go/constant"
	"go/printer"
	"go/token"
	"go/types"
	"math/big"
	"strings"

	"golang.org/x/tools/go/ssa"
)

// mathIntT marks unbounded mathematical integers in specs (SMT Int in both modes).
var mathIntT = types.NewNamed(types.NewTypeName(token.NoPos, nil, "mathint", nil), types.Typ[types.Int], nil)

type SpecEnv struct {
	c    *Ctx
	vars map[string]Val
	cur  *State
	old  *State
	pkg  *types.Package
	fr   *Frame
	hdr  *ssa.BasicBlock
	at   ssa.Instruction // program point for local-variable lookup (call-site assertions)
	soft bool            // failures are recorded in errs only (scope probing)
	pos  bool            // the formula is a hypothesis and this is a positive position of it: facts about the body of a forall are conjoined, not assumed
	bound map[string]bool // names bound by enclosing quantifiers (shadow locals)
	errs []string
}

func exprString(e ast.Expr) string {
	var b bytes.Buffer
	printer.Fprint(&b, token.NewFileSet(), e)
	return b.String()
}

func (c *Ctx) specEnv(fr *Frame, cur, old *State, hdr *ssa.BasicBlock) *SpecEnv {
	env := &SpecEnv{c: c, vars: map[string]Val{}, cur: cur, old: old, fr: fr, hdr: hdr}
	if fr.fn.Pkg != nil {
		env.pkg = fr.fn.Pkg.Pkg
	}
	for i, p := range fr.fn.Params {
		if i < len(fr.params) {
			env.vars[p.Name()] = fr.params[i]
			env.vars[fmt.Sprintf("param%d", i)] = fr.params[i] // positional name (robust to renaming)
		}
	}
	if fr.top {
		for k, v := range c.captured {
			if _, taken := env.vars[k]; !taken {
				env.vars[k] = v
			}
		}
	}
	for old, i := range c.eng.paramAliases(fr.fn) {
		if _, taken := env.vars[old]; !taken && i < len(fr.params) {
			env.vars[old] = fr.params[i] // the name this parameter had in the reference tree
		}
	}
	for _, fv := range fr.fn.FreeVars {
		if v, ok := fr.vals[fv]; ok {
			env.vars[fv.Name()] = v
		}
	}
	return env
}

func (e *SpecEnv) fail(msg string) Val {
	e.errs = append(e.errs, msg)
	if !e.soft {
		e.c.leave("spec: " + msg)
	}
	return Val{T: types.Typ[types.Bool], S: "false"}
}

func (c *Ctx) specBool(env *SpecEnv, e ast.Expr) string {
	v := c.specVal(env, e, types.Typ[types.Bool])
	if v.S == "" {
		env.fail("expression has no boolean term: " + exprString(e))
		return "false"
	}
	return v.S
}

type constVal struct{ K constant.Value }

// untyped constants are carried in Val.T == nil with S holding the exact
// decimal/float string; we keep the constant in a side table keyed by term.
func (c *Ctx) constV(k constant.Value) Val {
	return Val{T: nil, S: "CONST:" + k.ExactString(), Clo: nil, Fn: nil, Elems: nil, P: nil}
}

func isConstV(v Val) (constant.Value, bool) {
	if v.T == nil && strings.HasPrefix(v.S, "CONST:") {
		s := v.S[6:]
		if s == "true" || s == "false" {
			return constant.MakeBool(s == "true"), true
		}
		if strings.HasPrefix(s, "\"") {
			return constant.MakeFromLiteral(s, token.STRING, 0), true
		}
		if strings.Contains(s, "/") {
			parts := strings.SplitN(s, "/", 2)
			a := constant.MakeFromLiteral(parts[0], token.INT, 0)
			b := constant.MakeFromLiteral(parts[1], token.INT, 0)
			return constant.BinaryOp(constant.ToFloat(a), token.QUO, constant.ToFloat(b)), true
		}
		if strings.ContainsAny(s, ".eE") && !strings.HasPrefix(s, "0x") {
			return constant.MakeFromLiteral(s, token.FLOAT, 0), true
		}
		return constant.MakeFromLiteral(s, token.INT, 0), true
	}
	return nil, false
}

// coerce turns an untyped constant into a typed term of type t.
func (c *Ctx) coerce(env *SpecEnv, v Val, t types.Type) Val {
	k, ok := isConstV(v)
	if !ok {
		if v.T != nil && t == mathIntT && v.T != mathIntT {
			return c.toMathInt(v)
		}
		return v
	}
	if t == nil {
		// default types
		switch k.Kind() {
		case constant.Bool:
			t = types.Typ[types.Bool]
		case constant.Float:
			t = types.Typ[types.Float64]
		case constant.String:
			t = types.Typ[types.String]
		default:
			t = mathIntT
		}
	}
	if t == mathIntT {
		bi, _ := new(big.Int).SetString(constant.ToInt(k).ExactString(), 10)
		if bi == nil {
			return env.fail("non-integer constant as mathint")
		}
		if bi.Sign() < 0 {
			return Val{T: mathIntT, S: "(- " + new(big.Int).Neg(bi).String() + ")"}
		}
		return Val{T: mathIntT, S: bi.String()}
	}
	s, ok := c.sorts.constTerm(k, t)
	if !ok {
		if _, isPtr := t.Underlying().(*types.Pointer); isPtr {
			return c.mkVal(t, "0")
		}
		return env.fail(fmt.Sprintf("cannot represent constant %s as %s", k, t))
	}
	return c.mkVal(t, s)
}

func (c *Ctx) toMathInt(v Val) Val {
	if v.T == mathIntT {
		return v
	}
	bits, signed, ok := isIntType(v.T)
	if !ok {
		return v
	}
	if c.mode == INT {
		return Val{T: mathIntT, S: v.S}
	}
	if signed {
		half := new(big.Int).Lsh(big.NewInt(1), uint(bits-1))
		full := new(big.Int).Lsh(big.NewInt(1), uint(bits))
		return Val{T: mathIntT, S: fmt.Sprintf("(ite (bvslt %s %s) (- (bv2nat %s) %s) (bv2nat %s))", v.S, c.sorts.intLit(big.NewInt(0), bits), v.S, full.String(), v.S)}
		_ = half
	}
	return Val{T: mathIntT, S: fmt.Sprintf("(bv2nat %s)", v.S)}
}

func (env *SpecEnv) lookupPkg(name string) *types.Package {
	if env.pkg == nil {
		return nil
	}
	for _, imp := range env.pkg.Imports() {
		if imp.Name() == name {
			return imp
		}
	}
	// any loaded package with that name
	for _, p := range env.c.eng.allTypesPkgs() {
		if p.Name() == name {
			return p
		}
	}
	return nil
}

func (env *SpecEnv) typeOf(e ast.Expr) types.Type {
	switch x := e.(type) {
	case *ast.Ident:
		if x.Name == "mathint" {
			return mathIntT
		}
		if obj := types.Universe.Lookup(x.Name); obj != nil {
			if tn, ok := obj.(*types.TypeName); ok {
				return tn.Type()
			}
		}
		if env.pkg != nil {
			if obj := env.pkg.Scope().Lookup(x.Name); obj != nil {
				if tn, ok := obj.(*types.TypeName); ok {
					return tn.Type()
				}
			}
		}
	case *ast.SelectorExpr:
		if id, ok := x.X.(*ast.Ident); ok {
			if p := env.lookupPkg(id.Name); p != nil {
				if obj := p.Scope().Lookup(x.Sel.Name); obj != nil {
					if tn, ok := obj.(*types.TypeName); ok {
						return tn.Type()
					}
				}
			}
		}
	case *ast.StarExpr:
		if t := env.typeOf(x.X); t != nil {
			return types.NewPointer(t)
		}
	case *ast.ParenExpr:
		return env.typeOf(x.X)
	case *ast.ArrayType:
		if t := env.typeOf(x.Elt); t != nil && x.Len == nil {
			return types.NewSlice(t)
		}
	case *ast.InterfaceType:
		return types.NewInterfaceType(nil, nil)
	}
	return nil
}

func (env *SpecEnv) lookupIdent(name string) (Val, bool) {
	c := env.c
	if env.bound[name] {
		if v, ok := env.vars[name]; ok {
			return v, true
		}
	}
	if env.fr != nil && env.hdr != nil {
		// a parameter that is reassigned in the loop is a loop-carried value at the header
		for _, in := range env.hdr.Instrs {
			phi, ok := in.(*ssa.Phi)
			if !ok {
				break
			}
			if phi.Comment == name {
				if v, ok := env.fr.vals[phi]; ok {
					return v, true
				}
			}
		}
	}
	if v, ok := env.vars[name]; ok {
		return v, true
	}
	switch name {
	case "true", "false":
		return c.constV(constant.MakeBool(name == "true")), true
	case "nil":
		return Val{T: types.Typ[types.UntypedNil], S: "NIL"}, true
	}
	if env.fr != nil && (env.hdr != nil || env.at != nil) {
		if v, ok := c.lookupLocal(env, name); ok {
			return v, true
		}
	}
	if env.pkg != nil {
		if obj := env.pkg.Scope().Lookup(name); obj != nil {
			return env.objVal(obj)
		}
	}
	return Val{}, false
}

func (env *SpecEnv) objVal(obj types.Object) (Val, bool) {
	c := env.c
	switch o := obj.(type) {
	case *types.Const:
		if b, ok := o.Type().Underlying().(*types.Basic); ok && b.Info()&types.IsUntyped != 0 {
			return c.constV(o.Val()), true
		}
		s, ok := c.sorts.constTerm(o.Val(), o.Type())
		if !ok {
			return Val{}, false
		}
		return c.mkVal(o.Type(), s), true
	case *types.Var:
		sp := c.eng.prog.Package(o.Pkg())
		if sp == nil {
			return Val{}, false
		}
		g, ok := sp.Members[o.Name()].(*ssa.Global)
		if !ok {
			return Val{}, false
		}
		pv := c.val(&Frame{vals: map[ssa.Value]Val{}}, env.cur, g)
		return c.load(env.cur, pv.P), true
	}
	return Val{}, false
}

// lookupLocal resolves a source-level local variable name at a loop header.
func (c *Ctx) lookupLocal(env *SpecEnv, name string) (Val, bool) {
	if v, ok := c.lookupLocal0(env, name); ok {
		return v, true
	}
	if env.fr != nil && env.fr.fn != nil {
		if nw := c.eng.localAlias(env.fr.fn, name); nw != "" {
			return c.lookupLocal0(env, nw)
		}
	}
	return Val{}, false
}

func (c *Ctx) lookupLocal0(env *SpecEnv, name string) (Val, bool) {
	fr, hdr := env.fr, env.hdr
	limit := 0
	if hdr == nil {
		hdr = env.at.Block()
		limit = indexIn(hdr, env.at)
	}
	for _, in := range hdr.Instrs {
		phi, ok := in.(*ssa.Phi)
		if !ok {
			break
		}
		if phi.Comment == name {
			if v, ok := fr.vals[phi]; ok {
				return v, true
			}
		}
	}
	var best ssa.Instruction
	var bestVal ssa.Value
	var bestAddr bool
	better := func(in ssa.Instruction) bool {
		if best == nil {
			return true
		}
		bb, nb := best.Block(), in.Block()
		if bb == nb {
			return indexIn(nb, in) > indexIn(bb, best)
		}
		return bb.Dominates(nb)
	}
	for _, b := range fr.fn.Blocks {
		if !(b.Dominates(hdr)) || (b == hdr && limit == 0) {
			continue
		}
		for ii, in := range b.Instrs {
			if b == hdr && ii >= limit {
				break
			}
			switch x := in.(type) {
			case *ssa.DebugRef:
				id, ok := x.Expr.(*ast.Ident)
				if !ok || id.Name != name {
					continue
				}
				if ov, isVar := x.Object().(*types.Var); !isVar || ov.IsField() {
					continue // (field selections x.f also carry a debug reference for `f`)
				}
				if better(in) {
					best, bestVal, bestAddr = in, x.X, x.IsAddr
				}
			case *ssa.Phi:
				if x.Comment == name && better(in) {
					best, bestVal, bestAddr = in, x, false
				}
			}
		}
	}
	// address-taken locals referenced only inside the loop: look for any DebugRef with IsAddr
	if best == nil {
		for _, b := range fr.fn.Blocks {
			for _, in := range b.Instrs {
				if x, ok := in.(*ssa.DebugRef); ok && x.IsAddr {
					if id, ok := x.Expr.(*ast.Ident); ok && id.Name == name {
						if a, ok := x.X.(*ssa.Alloc); ok && a.Block().Dominates(hdr) {
							best, bestVal, bestAddr = in, x.X, true
						}
					}
				}
			}
		}
	}
	// `inscope` assertions: a variable declared in a block that does not dominate the
	// call site but has a single definition that was executed on the way (the assertion
	// guards its use with the condition under which that block runs)
	if best == nil && env.soft {
		var only ssa.Value
		ambiguous := false
		for _, b := range fr.fn.Blocks {
			for _, in := range b.Instrs {
				if x, ok := in.(*ssa.DebugRef); ok && !x.IsAddr {
					if id, ok := x.Expr.(*ast.Ident); ok && id.Name == name {
						if ov, isVar := x.Object().(*types.Var); !isVar || ov.IsField() {
							continue
						}
						if only != nil && only != x.X {
							ambiguous = true
						}
						only = x.X
					}
				}
			}
		}
		if only != nil && !ambiguous {
			if v, ok := fr.vals[only]; ok {
				return v, true
			}
		}
	}
	if best == nil {
		return Val{}, false
	}
	v, ok := fr.vals[bestVal]
	if !ok {
		if k, isConst := bestVal.(*ssa.Const); isConst {
			v, ok = c.val(fr, env.cur, k), true
		}
	}
	if !ok {
		return Val{}, false
	}
	if bestAddr {
		if v.P == nil {
			return Val{}, false
		}
		return c.load(env.cur, v.P), true
	}
	return v, true
}

func indexIn(b *ssa.BasicBlock, in ssa.Instruction) int {
	for i, x := range b.Instrs {
		if x == in {
			return i
		}
	}
	return -1
}

func (c *Ctx) specVal(env *SpecEnv, e ast.Expr, want types.Type) Val {
	v := c.specVal0(env, e, want)
	if want != nil {
		if _, isC := isConstV(v); isC {
			return c.coerce(env, v, want)
		}
		if v.S == "NIL" {
			return c.mkVal(want, c.sorts.zero(want))
		}
	}
	return v
}

func (c *Ctx) specVal0(env *SpecEnv, e ast.Expr, want types.Type) Val {
	switch x := e.(type) {
	case *ast.ParenExpr:
		return c.specVal0(env, x.X, want)
	case *ast.BasicLit:
		return c.constV(constant.MakeFromLiteral(x.Value, x.Kind, 0))
	case *ast.Ident:
		v, ok := env.lookupIdent(x.Name)
		if !ok {
			return env.fail("unknown identifier " + x.Name)
		}
		return v
	case *ast.SelectorExpr:
		return c.specSelector(env, x)
	case *ast.StarExpr:
		pv := c.specVal(env, x.X, nil)
		if pv.P == nil {
			return env.fail("dereference of non-pointer " + exprString(x.X))
		}
		return c.load(env.cur, pv.P)
	case *ast.IndexExpr:
		xv := c.specVal(env, x.X, nil)
		iv := c.specVal(env, x.Index, types.Typ[types.Int])
		idx := iv.S
		if iv.T == mathIntT && c.mode == BV {
			return env.fail("mathint index in bv mode")
		}
		if iv.T != nil && iv.T != mathIntT {
			idx = c.toIdx(iv.S, iv.T)
		}
		if xv.T == nil {
			return env.fail("index of untyped")
		}
		switch u := xv.T.Underlying().(type) {
		case *types.Slice:
			key := c.arrKeyFor(u.Elem())
			c.ensureHeapSort(key, u.Elem())
			c.registerIdx(idx)
			h := c.heapSym(env.cur, key)
			return c.mkVal(u.Elem(), fmt.Sprintf("(select (select %s (s_arr %s)) %s)", h, xv.S, c.idxAdd(fmt.Sprintf("(s_off %s)", xv.S), idx)))
		case *types.Array:
			return c.mkVal(u.Elem(), fmt.Sprintf("(select %s %s)", xv.S, idx))
		case *types.Basic:
			return c.mkVal(types.Typ[types.Uint8], fmt.Sprintf("(str_at %s %s)", xv.S, idx))
		case *types.Pointer:
			if arr, ok := u.Elem().Underlying().(*types.Array); ok && xv.P != nil {
				av := c.load(env.cur, xv.P)
				return c.mkVal(arr.Elem(), fmt.Sprintf("(select %s %s)", av.S, idx))
			}
		}
		return env.fail("cannot index " + xv.T.String())
	case *ast.SliceExpr:
		xv := c.specVal(env, x.X, nil)
		if _, ok := xv.T.Underlying().(*types.Slice); !ok {
			return env.fail("slice expression on non-slice")
		}
		lo := c.sorts.idxLit(0)
		hi := fmt.Sprintf("(s_len %s)", xv.S)
		if x.Low != nil {
			lo = c.specVal(env, x.Low, types.Typ[types.Int]).S
		}
		if x.High != nil {
			hi = c.specVal(env, x.High, types.Typ[types.Int]).S
		}
		return c.mkVal(xv.T, fmt.Sprintf("(mk_Slice (s_arr %s) %s %s %s)", xv.S, c.idxAdd(fmt.Sprintf("(s_off %s)", xv.S), lo), c.idxSub(hi, lo), c.idxSub(fmt.Sprintf("(s_cap %s)", xv.S), lo)))
	case *ast.UnaryExpr:
		if x.Op == token.AND {
			p := c.specAddr(env, x.X)
			if p == nil {
				return env.fail("cannot take address of " + exprString(x.X))
			}
			v := Val{T: types.NewPointer(p.ET), P: p}
			if len(p.Path) == 0 && p.Base != "" {
				v.S = p.Base
			}
			return v
		}
		w := want
		if x.Op == token.NOT {
			w = types.Typ[types.Bool]
		}
		var xv Val
		if x.Op == token.NOT && env.pos {
			neg := *env
			neg.pos = false
			xv = c.specVal(&neg, x.X, w)
			env.errs = append(env.errs, neg.errs[len(env.errs):]...)
		} else {
			xv = c.specVal(env, x.X, w)
		}
		if k, ok := isConstV(xv); ok {
			return c.constV(constant.UnaryOp(x.Op, k, 0))
		}
		if xv.T == mathIntT && x.Op == token.SUB {
			return Val{T: mathIntT, S: fmt.Sprintf("(- %s)", xv.S)}
		}
		r, ok := c.unop(x.Op, xv.S, xv.T)
		if !ok {
			return env.fail("unsupported unary " + x.Op.String())
		}
		return c.mkVal(xv.T, r)
	case *ast.BinaryExpr:
		return c.specBinary(env, x, want)
	case *ast.CallExpr:
		return c.specCall(env, x, want)
	case *ast.CompositeLit:
		t := env.typeOf(x.Type)
		if t != nil && len(x.Elts) == 0 {
			return c.mkVal(t, c.sorts.zero(t))
		}
		if t != nil {
			if info := c.sorts.info(t); info != nil {
				parts := make([]string, len(info.fields))
				for i, ft := range info.ftypes {
					parts[i] = c.sorts.zero(ft)
				}
				for i, el := range x.Elts {
					if kv, ok := el.(*ast.KeyValueExpr); ok {
						name := kv.Key.(*ast.Ident).Name
						for j, fn := range info.fnames {
							if fn == name {
								parts[j] = c.specVal(env, kv.Value, info.ftypes[j]).S
							}
						}
					} else if i < len(parts) {
						parts[i] = c.specVal(env, el, info.ftypes[i]).S
					}
				}
				return c.mkVal(t, "("+info.ctor+" "+strings.Join(parts, " ")+")")
			}
		}
		return env.fail("unsupported composite literal")
	}
	return env.fail(fmt.Sprintf("unsupported spec expression %T: %s", e, exprString(e)))
}

func (c *Ctx) specSelector(env *SpecEnv, x *ast.SelectorExpr) Val {
	if id, ok := x.X.(*ast.Ident); ok {
		if _, isVar := env.vars[id.Name]; !isVar {
			_, found := env.lookupIdent(id.Name)
			if !found {
				if p := env.lookupPkg(id.Name); p != nil {
					if obj := p.Scope().Lookup(x.Sel.Name); obj != nil {
						saved := env.pkg
						v, ok := env.objVal(obj)
						env.pkg = saved
						if ok {
							return v
						}
					}
					return env.fail("unknown " + id.Name + "." + x.Sel.Name)
				}
			}
		}
	}
	xv := c.specVal(env, x.X, nil)
	if xv.T == nil {
		return env.fail("selector on untyped " + exprString(x))
	}
	return c.selectField(env, xv, x.Sel.Name)
}

func (c *Ctx) selectField(env *SpecEnv, xv Val, name string) Val {
	var pkg *types.Package = env.pkg
	if n, ok := derefNamed(xv.T); ok && n.Obj().Pkg() != nil {
		pkg = n.Obj().Pkg()
	}
	obj, index, _ := types.LookupFieldOrMethod(xv.T, true, pkg, name)
	fld, ok := obj.(*types.Var)
	if !ok || !fld.IsField() {
		return env.fail("no field " + name + " in " + xv.T.String())
	}
	cur := xv
	for _, i := range index {
		// auto-deref
		if pt, ok := cur.T.Underlying().(*types.Pointer); ok {
			if cur.P == nil {
				cur = c.mkVal(cur.T, cur.S)
			}
			lv := c.load(env.cur, cur.P)
			lv.T = pt.Elem()
			cur = lv
		}
		info := c.sorts.info(cur.T)
		if info == nil {
			return env.fail("field selection on non-struct " + cur.T.String())
		}
		cur = c.mkVal(info.ftypes[i], fmt.Sprintf("(%s %s)", info.fields[i], cur.S))
	}
	return cur
}

func derefNamed(t types.Type) (*types.Named, bool) {
	if p, ok := t.Underlying().(*types.Pointer); ok {
		t = p.Elem()
	}
	if p, ok := t.(*types.Pointer); ok {
		t = p.Elem()
	}
	n, ok := t.(*types.Named)
	return n, ok
}

// specAddr evaluates a location expression to a symbolic pointer.
func (c *Ctx) specAddr(env *SpecEnv, e ast.Expr) *Ptr {
	switch x := e.(type) {
	case *ast.ParenExpr:
		return c.specAddr(env, x.X)
	case *ast.StarExpr:
		pv := c.specVal(env, x.X, nil)
		if pv.P == nil && pv.S != "" {
			pv = c.mkVal(pv.T, pv.S)
		}
		return pv.P
	case *ast.Ident:
		v, ok := env.lookupIdent(x.Name)
		if !ok {
			return nil
		}
		_ = v
		return nil
	case *ast.SelectorExpr:
		xv := c.specVal(env, x.X, nil)
		if xv.T == nil {
			return nil
		}
		var base *Ptr
		cur := xv.T
		if _, ok := cur.Underlying().(*types.Pointer); ok {
			if xv.P == nil {
				xv = c.mkVal(xv.T, xv.S)
			}
			base = xv.P
		} else {
			base = c.specAddr(env, x.X)
			if base == nil {
				return nil
			}
		}
		var pkg *types.Package = env.pkg
		if n, ok := derefNamed(xv.T); ok && n.Obj().Pkg() != nil {
			pkg = n.Obj().Pkg()
		}
		obj, index, _ := types.LookupFieldOrMethod(xv.T, true, pkg, x.Sel.Name)
		fld, ok := obj.(*types.Var)
		if !ok || !fld.IsField() {
			return nil
		}
		p := &Ptr{Key: base.Key, Base: base.Base, Path: append([]Sel{}, base.Path...), ET: base.ET}
		for _, i := range index {
			if pt, ok := p.ET.Underlying().(*types.Pointer); ok {
				// embedded pointer: load it and restart
				lv := c.load(env.cur, p)
				key := c.heapKeyFor(pt.Elem())
				c.ensureHeapSort(key, pt.Elem())
				p = &Ptr{Key: key, Base: lv.S, ET: pt.Elem()}
			}
			st, ok := p.ET.Underlying().(*types.Struct)
			if !ok {
				return nil
			}
			c.sorts.sortOf(p.ET)
			p.Path = append(p.Path, Sel{Field: i, ST: p.ET})
			p.ET = st.Field(i).Type()
		}
		return p
	case *ast.IndexExpr:
		xv := c.specVal(env, x.X, nil)
		iv := c.specVal(env, x.Index, types.Typ[types.Int])
		idx := iv.S
		if iv.T != nil && iv.T != mathIntT {
			idx = c.toIdx(iv.S, iv.T)
		}
		if sl, ok := xv.T.Underlying().(*types.Slice); ok {
			key := c.arrKeyFor(sl.Elem())
			c.ensureHeapSort(key, sl.Elem())
			return &Ptr{Key: key, Base: fmt.Sprintf("(s_arr %s)", xv.S), Path: []Sel{{IsIndex: true, Index: c.idxAdd(fmt.Sprintf("(s_off %s)", xv.S), idx)}}, ET: sl.Elem()}
		}
		if base := c.specAddr(env, x.X); base != nil {
			if arr, ok := base.ET.Underlying().(*types.Array); ok {
				p := &Ptr{Key: base.Key, Base: base.Base, Path: append(append([]Sel{}, base.Path...), Sel{IsIndex: true, Index: idx}), ET: arr.Elem()}
				return p
			}
		}
	}
	return nil
}

func (c *Ctx) specBinary(env *SpecEnv, x *ast.BinaryExpr, want types.Type) Val {
	bt := types.Typ[types.Bool]
	switch x.Op {
	case token.LAND:
		return Val{T: bt, S: and(c.specBool(env, x.X), c.specBool(env, x.Y))}
	case token.LOR:
		return Val{T: bt, S: or(c.specBool(env, x.X), c.specBool(env, x.Y))}
	}
	isCmp := x.Op == token.EQL || x.Op == token.NEQ || x.Op == token.LSS || x.Op == token.LEQ || x.Op == token.GTR || x.Op == token.GEQ
	var w types.Type
	if !isCmp && x.Op != token.SHL && x.Op != token.SHR {
		w = want
	}
	a := c.specVal0(env, x.X, w)
	var b Val
	if x.Op == token.SHL || x.Op == token.SHR {
		b = c.specVal0(env, x.Y, nil)
	} else {
		b = c.specVal0(env, x.Y, w)
	}
	ka, ca := isConstV(a)
	kb, cb := isConstV(b)
	if ca && cb {
		if isCmp {
			return c.constV(constant.MakeBool(constant.Compare(ka, x.Op, kb)))
		}
		if x.Op == token.SHL || x.Op == token.SHR {
			n, _ := constant.Uint64Val(kb)
			return c.constV(constant.Shift(ka, x.Op, uint(n)))
		}
		op := x.Op
		if op == token.QUO && ka.Kind() == constant.Int && kb.Kind() == constant.Int {
			op = token.QUO_ASSIGN
		}
		return c.constV(constant.BinaryOp(ka, op, kb))
	}
	// nil comparisons
	if a.S == "NIL" && b.T != nil {
		a = c.mkVal(b.T, c.sorts.zero(b.T))
	}
	if b.S == "NIL" && a.T != nil {
		b = c.mkVal(a.T, c.sorts.zero(a.T))
	}
	if x.Op == token.SHL || x.Op == token.SHR {
		if ca {
			a = c.coerce(env, a, want)
		}
		if cb {
			if a.T == mathIntT {
				n, _ := constant.Int64Val(kb)
				p := new(big.Int).Lsh(big.NewInt(1), uint(n)).String()
				if x.Op == token.SHL {
					return Val{T: mathIntT, S: fmt.Sprintf("(* %s %s)", a.S, p)}
				}
				return Val{T: mathIntT, S: fmt.Sprintf("(div %s %s)", a.S, p)}
			}
			b = c.coerce(env, b, types.Typ[types.Uint64])
			if c.mode == INT {
				n, _ := constant.Int64Val(kb)
				b.S = fmt.Sprint(n)
			}
		}
		r, _, ok := c.binop(x.Op, a.S, b.S, a.T, b.T)
		if !ok {
			return env.fail("unsupported shift")
		}
		return c.mkVal(a.T, r)
	}
	if ca {
		a = c.coerce(env, a, b.T)
	}
	if cb {
		b = c.coerce(env, b, a.T)
	}
	if a.T == mathIntT || b.T == mathIntT {
		a, b = c.toMathInt(a), c.toMathInt(b)
		if a.T != mathIntT || b.T != mathIntT {
			return env.fail("mixing mathint with non-integer in " + exprString(x))
		}
		ops := map[token.Token]string{token.ADD: "+", token.SUB: "-", token.MUL: "*", token.QUO: "div", token.REM: "mod",
			token.EQL: "=", token.LSS: "<", token.LEQ: "<=", token.GTR: ">", token.GEQ: ">="}
		if x.Op == token.NEQ {
			return Val{T: bt, S: fmt.Sprintf("(not (= %s %s))", a.S, b.S)}
		}
		op, ok := ops[x.Op]
		if !ok {
			return env.fail("unsupported mathint operator " + x.Op.String())
		}
		t := types.Type(mathIntT)
		if isCmp {
			t = bt
		}
		return Val{T: t, S: fmt.Sprintf("(%s %s %s)", op, a.S, b.S)}
	}
	if a.T == nil || b.T == nil {
		return env.fail("untyped operand in " + exprString(x))
	}
	// interior pointers (&x.f) compared with nil: non-nil exactly when the base is
	if a.S == "" && a.P != nil && (x.Op == token.EQL || x.Op == token.NEQ) && b.S == "0" {
		if a.P.isCell() {
			a.S = "1"
		} else {
			a.S = a.P.Base
		}
	}
	if b.S == "" && b.P != nil && (x.Op == token.EQL || x.Op == token.NEQ) && a.S == "0" {
		if b.P.isCell() {
			b.S = "1"
		} else {
			b.S = b.P.Base
		}
	}
	if a.S == "" || b.S == "" {
		return env.fail("operand without term in " + exprString(x))
	}
	r, _, ok := c.binop(x.Op, a.S, b.S, a.T, b.T)
	if !ok {
		return env.fail(fmt.Sprintf("unsupported operator %s on %s", x.Op, a.T))
	}
	if isCmp {
		return Val{T: bt, S: r}
	}
	return c.mkVal(a.T, r)
}

func (c *Ctx) specCall(env *SpecEnv, x *ast.CallExpr, want types.Type) Val {
	bt := types.Typ[types.Bool]
	if id, ok := x.Fun.(*ast.Ident); ok {
		if _, shadow := env.vars[id.Name]; !shadow {
			switch id.Name {
			case "old":
				sub := *env
				sub.cur = env.old
				sub.hdr = nil
				sub.vars = env.vars
				if env.hdr != nil {
					// in loop invariants old() refers to function entry; locals are not available
					sub.fr = env.fr
				}
				v := c.specVal(&sub, x.Args[0], want)
				env.errs = append(env.errs, sub.errs...)
				return v
			case "implies":
				neg := *env
				neg.pos = false
				a := c.specBool(&neg, x.Args[0])
				env.errs = append(env.errs, neg.errs[len(env.errs):]...)
				return Val{T: bt, S: fmt.Sprintf("(=> %s %s)", a, c.specBool(env, x.Args[1]))}
			case "iff":
				neg := *env
				neg.pos = false
				a := c.specBool(&neg, x.Args[0])
				b := c.specBool(&neg, x.Args[1])
				env.errs = append(env.errs, neg.errs[len(env.errs):]...)
				return Val{T: bt, S: fmt.Sprintf("(= %s %s)", a, b)}
			case "ite":
				cnd := c.specBool(env, x.Args[0])
				a := c.specVal0(env, x.Args[1], want)
				b := c.specVal0(env, x.Args[2], want)
				if _, ok := isConstV(a); ok {
					a = c.coerce(env, a, firstType(b.T, want))
				}
				if _, ok := isConstV(b); ok {
					b = c.coerce(env, b, firstType(a.T, want))
				}
				return c.mkVal(a.T, c.ite(cnd, a.S, b.S))
			case "forall", "exists":
				return c.specQuant(env, id.Name, x)
			case "len", "cap":
				av := c.specVal(env, x.Args[0], nil)
				it := types.Typ[types.Int]
				switch u := av.T.Underlying().(type) {
				case *types.Slice:
					if id.Name == "cap" {
						return c.mkVal(it, fmt.Sprintf("(s_cap %s)", av.S))
					}
					return c.mkVal(it, fmt.Sprintf("(s_len %s)", av.S))
				case *types.Basic:
					return c.mkVal(it, fmt.Sprintf("(str_len %s)", av.S))
				case *types.Array:
					return c.mkVal(it, c.sorts.idxLit(u.Len()))
				}
				return env.fail("len of " + av.T.String())
			case "typeis":
				av := c.specVal(env, x.Args[0], nil)
				t := env.typeOf(x.Args[1])
				if t == nil {
					return env.fail("unknown type in typeis: " + exprString(x.Args[1]))
				}
				if !isIfaceType(av.T) {
					return env.fail("typeis on non-interface")
				}
				return Val{T: bt, S: c.ifaceTest(av.S, t)}
			case "asType":
				av := c.specVal(env, x.Args[0], nil)
				t := env.typeOf(x.Args[1])
				if t == nil || !isIfaceType(av.T) {
					return env.fail("bad asType")
				}
				return c.mkVal(t, c.ifaceValue(av.S, t))
			case "nat", "mathint":
				av := c.specVal(env, x.Args[0], mathIntT)
				return c.toMathInt(av)
			case "ghost":
				name := x.Args[0].(*ast.Ident).Name
				g, ok := env.cur.ghost[name]
				if !ok {
					g = "0" // a counter nobody has advanced yet
				}
				return Val{T: mathIntT, S: g}
			case "fresh":
				av := c.specVal(env, x.Args[0], nil)
				return Val{T: bt, S: fmt.Sprintf("(and (>= %s %s) (< %s %s))", av.S, env.old.alloc, av.S, env.cur.alloc)}
			case "allocated":
				av := c.specVal(env, x.Args[0], nil)
				return Val{T: bt, S: fmt.Sprintf("(< %s %s)", av.S, env.cur.alloc)}
			case "unchanged":
				sub := *env
				sub.cur = env.old
				a := c.specVal(env, x.Args[0], nil)
				b := c.specVal(&sub, x.Args[0], nil)
				return Val{T: bt, S: fmt.Sprintf("(= %s %s)", a.S, b.S)}
			case "same":
				a := c.specVal0(env, x.Args[0], nil)
				b := c.specVal0(env, x.Args[1], nil)
				if _, ok := isConstV(a); ok {
					a = c.coerce(env, a, b.T)
				}
				if _, ok := isConstV(b); ok {
					b = c.coerce(env, b, a.T)
				}
				return Val{T: bt, S: fmt.Sprintf("(= %s %s)", a.S, b.S)}
			case "isNaN":
				a := c.specVal(env, x.Args[0], types.Typ[types.Float64])
				return Val{T: bt, S: fmt.Sprintf("(fp.isNaN %s)", a.S)}
			case "float64bits":
				av := c.specVal(env, x.Args[0], types.Typ[types.Float64])
				return c.mkVal(types.Typ[types.Uint64], c.f64bits(av.S))
			case "float64frombits":
				av := c.specVal(env, x.Args[0], types.Typ[types.Uint64])
				return c.mkVal(types.Typ[types.Float64], fmt.Sprintf("((_ to_fp 11 53) %s)", av.S))
			}
			// conversion?
			if t := env.typeOf(id); t != nil && len(x.Args) == 1 {
				return c.specConvert(env, x.Args[0], t)
			}
			// package-level function
			if env.pkg != nil {
				if sp := c.eng.prog.Package(env.pkg); sp != nil {
					if fn := sp.Func(id.Name); fn != nil {
						return c.specInline(env, fn, nil, x.Args)
					}
				}
			}
			return env.fail("unknown function " + id.Name)
		}
	}
	if sel, ok := x.Fun.(*ast.SelectorExpr); ok {
		if id, ok := sel.X.(*ast.Ident); ok {
			if id.Name == "spec" {
				return c.specLibCall(env, sel.Sel.Name, x.Args)
			}
			if _, isVar := env.lookupIdent(id.Name); !isVar {
				if p := env.lookupPkg(id.Name); p != nil {
					if t := env.typeOf(sel); t != nil && len(x.Args) == 1 {
						return c.specConvert(env, x.Args[0], t)
					}
					if sp := c.eng.prog.Package(p); sp != nil {
						if fn := sp.Func(sel.Sel.Name); fn != nil {
							return c.specInline(env, fn, nil, x.Args)
						}
					}
					return env.fail("unknown " + id.Name + "." + sel.Sel.Name)
				}
			}
		}
		// method call
		recv := c.specVal(env, sel.X, nil)
		if recv.T == nil {
			return env.fail("method call on untyped")
		}
		var pkg *types.Package = env.pkg
		if n, ok := derefNamed(recv.T); ok && n.Obj().Pkg() != nil {
			pkg = n.Obj().Pkg()
		}
		msel := c.eng.prog.MethodSets.MethodSet(recv.T).Lookup(pkg, sel.Sel.Name)
		if msel == nil {
			// try pointer receiver via address
			if p := c.specAddr(env, sel.X); p != nil {
				pt := types.NewPointer(recv.T)
				msel = c.eng.prog.MethodSets.MethodSet(pt).Lookup(pkg, sel.Sel.Name)
				if msel != nil {
					recv = Val{T: pt, P: p}
					if len(p.Path) == 0 {
						recv.S = p.Base
					}
				}
			}
		}
		if msel == nil {
			return env.fail("no method " + sel.Sel.Name + " on " + recv.T.String())
		}
		fn := c.eng.prog.MethodValue(msel)
		if fn == nil {
			return env.fail("abstract method " + sel.Sel.Name)
		}
		return c.specInline(env, fn, &recv, x.Args)
	}
	// conversion with composite type expression, e.g. (*T)(x)
	if t := env.typeOf(x.Fun); t != nil && len(x.Args) == 1 {
		return c.specConvert(env, x.Args[0], t)
	}
	return env.fail("unsupported call " + exprString(x))
}

func firstType(a, b types.Type) types.Type {
	if a != nil {
		return a
	}
	return b
}

func (c *Ctx) specConvert(env *SpecEnv, arg ast.Expr, t types.Type) Val {
	av := c.specVal0(env, arg, nil)
	if _, ok := isConstV(av); ok {
		return c.coerce(env, av, t)
	}
	if av.S == "NIL" {
		return c.mkVal(t, c.sorts.zero(t))
	}
	if t == mathIntT {
		return c.toMathInt(av)
	}
	if av.T == mathIntT {
		// mathint -> machine integer: wrap
		bits, signed, ok := isIntType(t)
		if !ok {
			return env.fail("mathint conversion to non-integer")
		}
		if c.mode == INT {
			return c.mkVal(t, c.wrap(av.S, bits, signed))
		}
		return c.mkVal(t, fmt.Sprintf("((_ int2bv %d) %s)", bits, av.S))
	}
	if types.Identical(av.T.Underlying(), t.Underlying()) {
		av.T = t
		return av
	}
	r, ok := c.convert(av.S, av.T, t)
	if !ok {
		return env.fail(fmt.Sprintf("unsupported conversion %s -> %s", av.T, t))
	}
	return c.mkVal(t, r)
}

// specInline evaluates a Go function purely inside a spec expression.
func (c *Ctx) specInline(env *SpecEnv, fn *ssa.Function, recv *Val, argExprs []ast.Expr) Val {
	var args []Val
	if recv != nil {
		// adjust receiver pointer-ness
		want := fn.Signature.Recv().Type()
		_, wantPtr := want.Underlying().(*types.Pointer)
		_, havePtr := recv.T.Underlying().(*types.Pointer)
		r := *recv
		if havePtr && !wantPtr {
			if r.P == nil {
				r = c.mkVal(r.T, r.S)
			}
			r = c.load(env.cur, r.P)
		}
		args = append(args, r)
	}
	off := len(args)
	for i, a := range argExprs {
		var pt types.Type
		if i+off < len(fn.Params) {
			pt = fn.Params[i+off].Type()
		}
		args = append(args, c.specVal(env, a, pt))
	}
	rt := fn.Signature.Results()
	var rtt types.Type = rt
	if rt.Len() == 1 {
		rtt = rt.At(0).Type()
	}
	fr := &Frame{depth: 1, callSeq: map[string]int{}}
	if sem, ok := c.builtinSemantics(fr, env.cur, fn, args, rtt); ok {
		return sem
	}
	key := fnKey(fn)
	if ct := c.eng.contractOf(fn); ct != nil && !ct.Inline && ct.Pure {
		// pure function under contract used in a spec: uninterpreted result + ensures
		st := env.cur.clone()
		fr := c.newFrame(fn, 1)
		v, _ := c.applyContract(fr, st, ct, fn, nil, args, rtt, token.NoPos)
		return v
	}
	if len(fn.Blocks) == 0 {
		return env.fail("spec call to function without body: " + key)
	}
	nobl := len(c.obls)
	savedRTE := c.rte
	c.rte = false
	sub := c.newFrame(fn, 1)
	sub.contract = nil
	st := env.cur.clone()
	st.reach = "true"
	outside := len(c.outside)
	_, rvals := c.execBody(sub, st, args, nil)
	c.rte = savedRTE
	c.obls = c.obls[:nobl]
	if len(c.outside) > outside {
		// keep the reasons: a spec that leaves the subset is not usable
	}
	c.inlined[key+" (in spec)"] = true
	if len(rvals) == 0 {
		return env.fail("spec call without result: " + key)
	}
	if len(rvals) == 1 {
		return rvals[0]
	}
	return Val{T: rt, Elems: rvals}
}

func (c *Ctx) specQuant(env *SpecEnv, kind string, x *ast.CallExpr) Val {
	bt := types.Typ[types.Bool]
	// forall(i, lo, hi, P)  |  forall(i, T, P)
	id, ok := x.Args[0].(*ast.Ident)
	if !ok {
		return env.fail("quantifier variable must be an identifier")
	}
	sub := *env
	sub.vars = map[string]Val{}
	for k, v := range env.vars {
		sub.vars[k] = v
	}
	sub.bound = map[string]bool{id.Name: true}
	for k := range env.bound {
		sub.bound[k] = true
	}
	c.n++
	vn := fmt.Sprintf("%s!q%d", id.Name, c.n)
	var out string
	npre := len(c.pre)
	// definitions emitted while translating the body (inlined Go functions) mention
	// the bound variable: they are turned into let-bindings inside the quantifier
	wrapBody := func(body string, forall bool) string {
		lines := append([]string(nil), c.pre[npre:]...)
		c.pre = c.pre[:npre]
		var hyps []string
		type bind struct{ name, term string }
		var binds []bind
		for _, l := range lines {
			parts := topSexps(l[1 : len(l)-1])
			switch {
			case len(parts) == 5 && parts[0] == "define-fun" && parts[2] == "()" && strings.HasPrefix(parts[1], "glob_"):
				c.pre = append(c.pre, l) // package-level constant: global definition
			case len(parts) == 5 && parts[0] == "define-fun" && parts[2] == "()":
				binds = append(binds, bind{parts[1], parts[4]})
			case len(parts) == 2 && parts[0] == "assert":
				// facts established while evaluating the body (ranges …).  Those that mention
				// neither the bound variable nor a name bound in the body are global facts
				// (e.g. heap well-formedness axioms first needed here): they stay global.
				local := strings.Contains(parts[1], vn)
				for _, b := range binds {
					if b.name != "" && strings.Contains(parts[1], b.name) {
						local = true
					}
				}
				if !local {
					c.pre = append(c.pre, l)
					continue
				}
				binds = append(binds, bind{"", parts[1]})
			case len(parts) >= 3 && (parts[0] == "declare-const" || parts[0] == "declare-fun") && (strings.HasPrefix(parts[1], "heap_") || parts[0] == "declare-fun" || strings.HasPrefix(parts[1], "glob_")):
				// initial heap symbols / uninterpreted functions first mentioned here do not depend on the bound variable: keep them global
				c.pre = append(c.pre, l)
			default:
				env.fail("quantifier body needs a fresh symbol (not expressible inside a quantifier): " + truncate(l, 120))
			}
		}
		_ = hyps
		t := body
		for i := len(binds) - 1; i >= 0; i-- {
			b := binds[i]
			if b.name == "" {
				if forall && env.pos {
					// hypothesis: the facts (definitions of pure functions, ranges) hold for every instance
					t = fmt.Sprintf("(and %s %s)", b.term, t)
				} else if forall {
					t = fmt.Sprintf("(=> %s %s)", b.term, t)
				} else {
					t = fmt.Sprintf("(and %s %s)", b.term, t)
				}
			} else {
				t = fmt.Sprintf("(let ((%s %s)) %s)", b.name, b.term, t)
			}
		}
		return t
	}
	switch len(x.Args) {
	case 4:
		it := types.Typ[types.Int]
		sub.vars[id.Name] = Val{T: it, S: vn}
		lo := c.specVal(env, x.Args[1], it)
		hi := c.specVal(env, x.Args[2], it)
		npre = len(c.pre)
		c.inQuant++
		body := c.specBool(&sub, x.Args[3])
		c.inQuant--
		body = wrapBody(body, kind == "forall")
		rng := and(c.idxLe(lo.S, vn), c.idxLe(c.idxAdd(vn, c.sorts.idxLit(1)), hi.S))
		if c.mode == BV {
			rng = and(c.idxLe(lo.S, vn), fmt.Sprintf("(bvslt %s %s)", vn, hi.S))
		} else {
			rng = and(c.idxLe(lo.S, vn), fmt.Sprintf("(< %s %s)", vn, hi.S))
		}
		if kind == "forall" {
			out = fmt.Sprintf("(forall ((%s %s)) (=> %s %s))", vn, c.sorts.idxSort(), rng, body)
		} else {
			out = fmt.Sprintf("(exists ((%s %s)) (and %s %s))", vn, c.sorts.idxSort(), rng, body)
		}
	case 3:
		t := env.typeOf(x.Args[1])
		if t == nil {
			return env.fail("unknown type in quantifier")
		}
		srt := "Int"
		if t != mathIntT {
			srt = c.sorts.sortOf(t)
		}
		sub.vars[id.Name] = c.mkVal(t, vn)
		if t == mathIntT {
			sub.vars[id.Name] = Val{T: mathIntT, S: vn}
		}
		npre = len(c.pre)
		c.inQuant++
		body := c.specBool(&sub, x.Args[2])
		c.inQuant--
		body = wrapBody(body, kind == "forall")
		rng := "true"
		if bits, signed, ok := isIntType(t); ok && t != mathIntT && c.mode == INT {
			rng = c.sorts.rangePred(vn, bits, signed)
		}
		if kind == "forall" {
			out = fmt.Sprintf("(forall ((%s %s)) (=> %s %s))", vn, srt, rng, body)
		} else {
			out = fmt.Sprintf("(exists ((%s %s)) (and %s %s))", vn, srt, rng, body)
		}
	default:
		return env.fail("forall(i, lo, hi, P) or forall(x, T, P)")
	}
	env.errs = append(env.errs, sub.errs...)
	return Val{T: bt, S: out}
}

func (c *Ctx) specLibCall(env *SpecEnv, name string, argExprs []ast.Expr) Val {
	lib := c.eng.specLib(c.mode)
	fn, ok := lib.funcs[name]
	if !ok {
		return env.fail("unknown spec function spec." + name + " (mode " + c.mode.String() + ")")
	}
	if len(fn.params) != len(argExprs) {
		return env.fail("spec." + name + ": wrong number of arguments")
	}
	var terms []string
	for i, a := range argExprs {
		want := sortToType(fn.params[i], c.mode)
		v := c.specVal(env, a, want)
		if v.T == mathIntT && fn.params[i] != "Int" {
			return env.fail("spec." + name + ": mathint passed for " + fn.params[i])
		}
		if fn.params[i] == "Int" && c.mode == BV && v.T != mathIntT {
			v = c.toMathInt(v)
		}
		if v.S == "" {
			return env.fail("spec." + name + ": argument without term")
		}
		terms = append(terms, v.S)
	}
	c.specUsed[name] = true
	t := sortToType(fn.ret, c.mode)
	app := "spec." + name
	if len(terms) > 0 {
		app = fmt.Sprintf("(spec.%s %s)", name, strings.Join(terms, " "))
	}
	if t == nil {
		return Val{T: nil, S: app}
	}
	if t == mathIntT {
		return Val{T: mathIntT, S: app}
	}
	return c.mkVal(t, app)
}

func sortToType(s string, m Mode) types.Type {
	switch s {
	case "Bool":
		return types.Typ[types.Bool]
	case "Float64", "(_ FloatingPoint 11 53)":
		return types.Typ[types.Float64]
	case "(_ BitVec 64)":
		return types.Typ[types.Uint64]
	case "(_ BitVec 32)":
		return types.Typ[types.Uint32]
	case "(_ BitVec 16)":
		return types.Typ[types.Uint16]
	case "(_ BitVec 8)":
		return types.Typ[types.Uint8]
	case "Int":
		return mathIntT
	case "Str":
		return types.Typ[types.String]
	}
	return nil
}
