package main

// Symbolic execution of go/ssa functions into SMT definitions (passive form,
// loops cut at invariants, calls by contract or inlined leaf accessors).

import (
	"fmt"
	"go/ast"
	"go/token"
	"go/types"
	"sort"
	"strings"

	"golang.org/x/tools/go/ssa"
)

type PanicExit struct {
	cond string
	st   *State
	val  Val
	site string
	pos  token.Pos
	kind string // declared kind when coming from a callee contract
}

type Frame struct {
	id       int
	fn       *ssa.Function
	vals     map[ssa.Value]Val
	cells    map[*ssa.Alloc]*Ptr
	contract *Contract
	params   []Val
	entry    *State
	depth    int
	panics   []PanicExit
	top      bool
	pfx      string
	loops    []*loopInfo
	loopOf   map[*ssa.BasicBlock]*loopInfo
	out      map[*ssa.BasicBlock]*State // state at end of block
	edgeCond map[[2]int]string
	defers   []deferred
	callSeq  map[string]int
	retReach []string
	retVals  [][]Val
	retSts   []*State
	recovered map[*ssa.BasicBlock]bool
	siteOrd   map[string]map[ssa.Instruction]int
}

type deferred struct {
	cond string
	call *ssa.CallCommon
	args []Val
	fnv  Val
	pos  token.Pos
}

type loopInfo struct {
	header  *ssa.BasicBlock
	ordinal int
	body    map[*ssa.BasicBlock]bool
	backs   []*ssa.BasicBlock
	pos     token.Pos
	preSt   *State // state just before havoc (merged entry)
	hdrSt   *State // state after havoc+assume
	decr0   string // decreases value at header
}

func fnKey(fn *ssa.Function) string {
	if fn.Pkg == nil {
		if fn.Object() != nil && fn.Object().Pkg() != nil {
			return fn.Object().Pkg().Path() + "." + fn.RelString(fn.Object().Pkg())
		}
		return fn.String()
	}
	return fn.Pkg.Pkg.Path() + "." + fn.RelString(fn.Pkg.Pkg)
}

func (c *Ctx) newFrame(fn *ssa.Function, depth int) *Frame {
	c.frames++
	fr := &Frame{id: c.frames, fn: fn, vals: map[ssa.Value]Val{}, cells: map[*ssa.Alloc]*Ptr{}, depth: depth,
		out: map[*ssa.BasicBlock]*State{}, edgeCond: map[[2]int]string{}, loopOf: map[*ssa.BasicBlock]*loopInfo{}, callSeq: map[string]int{}}
	fr.pfx = fmt.Sprintf("f%d_", fr.id)
	fr.contract = c.eng.contractOf(fn)
	return fr
}

func (c *Ctx) pos(p token.Pos) token.Position { return c.eng.fset.Position(p) }

// ---- loops ----

func findLoops(fn *ssa.Function) []*loopInfo {
	var loops []*loopInfo
	byHdr := map[*ssa.BasicBlock]*loopInfo{}
	for _, b := range fn.Blocks {
		for _, s := range b.Succs {
			if s.Dominates(b) { // back edge b -> s
				li := byHdr[s]
				if li == nil {
					li = &loopInfo{header: s, body: map[*ssa.BasicBlock]bool{s: true}}
					byHdr[s] = li
					loops = append(loops, li)
				}
				li.backs = append(li.backs, b)
				// collect body: nodes that reach b without passing s
				stack := []*ssa.BasicBlock{b}
				for len(stack) > 0 {
					n := stack[len(stack)-1]
					stack = stack[:len(stack)-1]
					if li.body[n] {
						continue
					}
					li.body[n] = true
					for _, p := range n.Preds {
						stack = append(stack, p)
					}
				}
			}
		}
	}
	// position: smallest source position among instructions in header / body
	for _, li := range loops {
		li.pos = loopPos(li)
	}
	sort.Slice(loops, func(i, j int) bool { return loops[i].pos < loops[j].pos })
	for i, li := range loops {
		li.ordinal = i + 1
	}
	return loops
}

func loopPos(li *loopInfo) token.Pos {
	// The position of the `for` statement is not directly available; use the
	// smallest valid position of any instruction in the loop body, which is
	// stable w.r.t. source order of loops.
	var best token.Pos
	for b := range li.body {
		for _, in := range b.Instrs {
			p := in.Pos()
			if d, ok := in.(*ssa.DebugRef); ok {
				p = d.Expr.Pos()
			}
			if p.IsValid() && (best == 0 || p < best) {
				best = p
			}
		}
	}
	return best
}

func rpo(fn *ssa.Function, isBack func(from, to *ssa.BasicBlock) bool) []*ssa.BasicBlock {
	seen := map[*ssa.BasicBlock]bool{}
	var order []*ssa.BasicBlock
	var visit func(b *ssa.BasicBlock)
	visit = func(b *ssa.BasicBlock) {
		seen[b] = true
		for _, s := range b.Succs {
			if !seen[s] && !isBack(b, s) {
				visit(s)
			}
		}
		order = append(order, b)
	}
	visit(fn.Blocks[0])
	if fn.Recover != nil && !seen[fn.Recover] {
		visit(fn.Recover)
	}
	for i, j := 0, len(order)-1; i < j; i, j = i+1, j-1 {
		order[i], order[j] = order[j], order[i]
	}
	return order
}

// ---- function execution ----

// execBody runs fn's body from entry state st with the given parameter
// values; returns the merged state at normal return and the results.
func (c *Ctx) execBody(fr *Frame, st *State, args []Val, freevars []Val) (*State, []Val) {
	fn := fr.fn
	if len(fn.Blocks) == 0 {
		c.leave("no body: " + fn.String())
		return st, nil
	}
	fr.params = args
	for i, p := range fn.Params {
		if i < len(args) {
			fr.vals[p] = args[i]
		}
	}
	for i, fv := range fn.FreeVars {
		if i < len(freevars) {
			fr.vals[fv] = freevars[i]
		}
	}
	fr.entry = st.clone()
	fr.loops = findLoops(fn)
	for _, li := range fr.loops {
		fr.loopOf[li.header] = li
	}
	isBack := func(from, to *ssa.BasicBlock) bool { return to.Dominates(from) }
	order := rpo(fn, isBack)
	inOrder := map[*ssa.BasicBlock]bool{}
	for _, b := range order {
		inOrder[b] = true
	}
	for _, b := range order {
		var bst *State
		if b == fn.Blocks[0] {
			bst = st.clone()
		} else if b == fn.Recover {
			continue // recover block handled with defers
		} else {
			bst = c.mergeIn(fr, b, isBack)
			if bst == nil {
				continue
			}
		}
		if li := fr.loopOf[b]; li != nil {
			c.enterLoop(fr, li, bst)
		}
		c.execBlock(fr, b, bst)
	}
	// merge returns
	if len(fr.retReach) == 0 {
		ns := st.clone()
		ns.reach = "false"
		return ns, nil
	}
	if len(fr.retReach) == 1 {
		return fr.retSts[0], fr.retVals[0]
	}
	ms := c.mergeStates(fr.retSts, fr.retReach)
	nres := len(fr.retVals[0])
	res := make([]Val, nres)
	for i := 0; i < nres; i++ {
		var vs []Val
		for _, rv := range fr.retVals {
			vs = append(vs, rv[i])
		}
		res[i] = c.mergeVals(vs, fr.retReach)
	}
	return ms, res
}

func (c *Ctx) mergeVals(vs []Val, conds []string) Val {
	first := vs[0]
	same := true
	for _, v := range vs[1:] {
		if v.S != first.S || v.S == "" {
			same = false
		}
	}
	if same && first.S != "" {
		return first
	}
	if first.S == "" && len(first.Elems) > 0 {
		out := Val{T: first.T}
		for i := range first.Elems {
			var es []Val
			for _, v := range vs {
				es = append(es, v.Elems[i])
			}
			out.Elems = append(out.Elems, c.mergeVals(es, conds))
		}
		return out
	}
	for _, v := range vs {
		if v.S == "" {
			c.leave("interior pointer merged at a join")
			return c.havocVal(first.T, "ptrmerge")
		}
	}
	t := vs[len(vs)-1].S
	for i := len(vs) - 2; i >= 0; i-- {
		t = c.ite(conds[i], vs[i].S, t)
	}
	name := c.def("m", c.sorts.sortOf(first.T), t)
	return c.mkVal(first.T, name)
}

func (c *Ctx) mergeStates(sts []*State, conds []string) *State {
	ns := &State{heaps: map[string]string{}, ghost: map[string]string{}}
	ns.reach = c.def("reach", "Bool", or(conds...))
	keys := map[string]bool{}
	sameEpoch := true
	for _, s := range sts {
		for k := range s.heaps {
			keys[k] = true
		}
		if s.epoch != sts[0].epoch {
			sameEpoch = false
		}
	}
	if !sameEpoch {
		for ik := range c.initHeaps {
			keys[ik[:strings.LastIndex(ik, "|")]] = true
		}
		c.frames++
		ns.epoch = 5000 + c.frames*11 + c.n
	} else {
		ns.epoch = sts[0].epoch
	}
	for _, k := range sortedKeys(keys) {
		var syms []string
		for _, s := range sts {
			syms = append(syms, c.heapSym(s, k))
		}
		t := syms[len(syms)-1]
		same := true
		for _, s := range syms {
			if s != t {
				same = false
			}
		}
		if same {
			if _, explicit := sts[0].heaps[k]; explicit || !sameEpoch {
				ns.heaps[k] = t
			}
			continue
		}
		for i := len(syms) - 2; i >= 0; i-- {
			t = c.ite(conds[i], syms[i], t)
		}
		ns.heaps[k] = c.def("heapm", c.heapSorts[k], t)
	}
	gk := map[string]bool{}
	for _, s := range sts {
		for k := range s.ghost {
			gk[k] = true
		}
	}
	for _, k := range sortedKeys(gk) {
		gv := func(s *State) string {
			if g, ok := s.ghost[k]; ok && g != "" {
				return g
			}
			return "0"
		}
		t := gv(sts[len(sts)-1])
		for i := len(sts) - 2; i >= 0; i-- {
			t = c.ite(conds[i], gv(sts[i]), t)
		}
		ns.ghost[k] = c.def("ghost_"+k, "Int", t)
	}
	// alloc counter
	t := sts[len(sts)-1].alloc
	for i := len(sts) - 2; i >= 0; i-- {
		t = c.ite(conds[i], sts[i].alloc, t)
	}
	if t != sts[0].alloc {
		t = c.def("alloc", "Int", t)
	}
	ns.alloc = t
	if !sameEpoch {
		c.epochAlloc[ns.epoch] = ns.alloc
	}
	return ns
}

func (c *Ctx) edge(fr *Frame, from, to *ssa.BasicBlock) string {
	if e, ok := fr.edgeCond[[2]int{from.Index, to.Index}]; ok {
		return e
	}
	return "false"
}

func (c *Ctx) mergeIn(fr *Frame, b *ssa.BasicBlock, isBack func(from, to *ssa.BasicBlock) bool) *State {
	var sts []*State
	var conds []string
	for _, p := range b.Preds {
		if isBack(p, b) {
			continue
		}
		ps := fr.out[p]
		if ps == nil {
			continue
		}
		sts = append(sts, ps)
		conds = append(conds, c.edge(fr, p, b))
	}
	if len(sts) == 0 {
		return nil
	}
	if len(sts) == 1 {
		ns := sts[0].clone()
		ns.reach = conds[0]
		return ns
	}
	return c.mergeStates(sts, conds)
}

func (c *Ctx) setVal(fr *Frame, v ssa.Value, val Val) {
	fr.vals[v] = val
}

func (c *Ctx) bind(fr *Frame, v ssa.Value, t types.Type, term string) Val {
	name := c.def(fr.pfx+v.Name(), c.sorts.sortOf(t), term)
	val := c.mkVal(t, name)
	fr.vals[v] = val
	return val
}

func (c *Ctx) val(fr *Frame, st *State, v ssa.Value) Val {
	if x, ok := fr.vals[v]; ok {
		return x
	}
	switch x := v.(type) {
	case *ssa.Const:
		t := x.Type()
		if x.Value == nil {
			return c.mkVal(t, c.sorts.zero(t))
		}
		s, ok := c.sorts.constTerm(x.Value, t)
		if !ok {
			c.note("unsupported constant " + x.String())
			return c.havocVal(t, "const")
		}
		return c.mkVal(t, s)
	case *ssa.Global:
		key := "G:" + x.Pkg.Pkg.Path() + "." + x.Name()
		et := x.Type().(*types.Pointer).Elem()
		c.ensureHeapSort(key, et)
		if _, ok := st.heaps[key]; !ok {
			if _, have := c.constGlob[key]; !have {
				if cv, ok := c.eng.globalInit(c, x); ok {
					c.constGlob[key] = c.def("glob_"+sanitize(x.Name()), c.sorts.sortOf(et), cv)
				}
			}
		}
		return Val{T: x.Type(), P: &Ptr{Key: key, ET: et}}
	case *ssa.Function:
		return Val{T: x.Type(), S: fmt.Sprintf("%d", c.eng.funcID(x)), Fn: x}
	case *ssa.Builtin:
		return Val{T: x.Type()}
	}
	c.leave(fmt.Sprintf("value %s (%T) used before definition in %s", v.Name(), v, fr.fn.Name()))
	hv := c.havocVal(v.Type(), "undef")
	fr.vals[v] = hv
	return hv
}

func (c *Ctx) enterLoop(fr *Frame, li *loopInfo, st *State) {
	// 1. assert invariants on entry (values of header phis = entry operands)
	hdr := li.header
	isBack := map[*ssa.BasicBlock]bool{}
	for _, b := range li.backs {
		isBack[b] = true
	}
	var invs, decs []*Clause
	var declared bool
	if fr.contract != nil {
		for _, cl := range fr.contract.Clauses {
			if cl.Loop == li.ordinal {
				declared = true
				switch cl.Kind {
				case "invariant":
					invs = append(invs, cl)
				case "decreases":
					decs = append(decs, cl)
				}
			}
		}
	}
	if !declared && fr.top {
		c.leave(fmt.Sprintf("loop %d at %s has no invariant", li.ordinal, c.pos(li.pos)))
	}
	if !declared && !fr.top {
		c.leave(fmt.Sprintf("inlined callee %s has a loop", fr.fn.Name()))
	}
	// entry values for phis
	entryPhi := map[*ssa.Phi]Val{}
	for _, in := range hdr.Instrs {
		phi, ok := in.(*ssa.Phi)
		if !ok {
			break
		}
		var vs []Val
		var conds []string
		for i, p := range hdr.Preds {
			if isBack[p] || fr.out[p] == nil {
				continue
			}
			vs = append(vs, c.val(fr, fr.out[p], phi.Edges[i]))
			conds = append(conds, c.edge(fr, p, hdr))
		}
		if len(vs) > 0 {
			entryPhi[phi] = c.mergeVals(vs, conds)
		}
	}
	li.preSt = st.clone()
	for phi, v := range entryPhi {
		fr.vals[phi] = v
	}
	for _, cl := range invs {
		env := c.specEnv(fr, st, fr.entry, hdr)
		g := c.specBool(env, cl.Expr)
		c.oblige("inv.init", fmt.Sprintf("loop%d/inv.init#%d", li.ordinal, cl.Idx), st.reach, g, c.pos(li.pos)).Desc = cl.Text
	}
	// 2. havoc loop-modified state
	mod := c.loopMods(fr, li)
	for _, in := range hdr.Instrs {
		phi, ok := in.(*ssa.Phi)
		if !ok {
			break
		}
		hv := c.havocVal(phi.Type(), phi.Name())
		fr.vals[phi] = hv
		// index of a range-over-slice loop: starts at -1, steps by one and is tested
		// against len before every use, so it never wraps: it stays >= -1
		if lo, lenV, ok := rangeIndexPhi(phi); ok && hv.S != "" {
			// ... and below the length it is compared with (it is -1 or a value that passed the test)
			if lv, have := fr.vals[lenV]; have && lv.S != "" && lo < 0 {
				if c.mode == BV {
					c.assume(st.reach, fmt.Sprintf("(bvslt %s %s)", hv.S, lv.S))
				} else {
					c.assume(st.reach, fmt.Sprintf("(< %s %s)", hv.S, lv.S))
				}
			}
			if c.mode == BV {
				c.assume(st.reach, fmt.Sprintf("(bvsge %s %s)", hv.S, bvLit(uint64(lo))))
			} else {
				lit := fmt.Sprintf("%d", lo)
				if lo < 0 {
					lit = fmt.Sprintf("(- %d)", -lo)
				}
				c.assume(st.reach, fmt.Sprintf("(>= %s %s)", hv.S, lit))
			}
		}
	}
	if mod.all {
		c.havocAll(st, true)
		for k := range mod.keys {
			if _, known := c.heapSorts[k]; strings.HasPrefix(k, "L:") && known {
				st.heaps[k] = c.decl("loopcell", c.heapSorts[k])
			}
		}
	} else {
		for _, k := range sortedKeys(mod.keys) {
			if _, ok := c.heapSorts[k]; !ok {
				continue
			}
			if bases := mod.bases[k]; len(bases) > 0 && !mod.whole[k] && strings.HasPrefix(k, "A:") {
				// only the arrays of these loop-invariant slices are written in the loop
				h := c.heapSym(st, k)
				elemSort := strings.TrimSuffix(strings.TrimPrefix(c.heapSorts[k], "(Array Int "), ")")
				okAll := true
				for _, bv := range bases {
					v, have := fr.vals[bv]
					if !have || v.S == "" {
						okAll = false
						break
					}
					fa := c.decl("looparr", elemSort)
					h = c.def("heap", c.heapSorts[k], fmt.Sprintf("(store %s (s_arr %s) %s)", h, v.S, fa))
				}
				if okAll {
					st.heaps[k] = h
					continue
				}
			}
			if bases := mod.bases[k]; len(bases) > 0 && !mod.whole[k] && strings.HasPrefix(k, "H:") {
				// only these (loop-invariant) objects of the struct heap are written in the loop
				okAll := true
				save := st.heaps[k]
				for _, bv := range bases {
					v, have := fr.vals[bv]
					if !have || v.P == nil || v.P.Key != k || len(v.P.Path) != 0 {
						okAll = false
						break
					}
					hv := c.havocVal(v.P.ET, "loopobj")
					c.store(st, v.P, hv.S)
				}
				if okAll {
					continue
				}
				st.heaps[k] = save
			}
			st.heaps[k] = c.decl("loopheap_"+sanitize(k), c.heapSorts[k])
		}
		if mod.allocs {
			na := c.decl("alloc", "Int")
			c.assume("true", fmt.Sprintf("(>= %s %s)", na, st.alloc))
			st.alloc = na
		}
	}
	for k := range st.ghost {
		if mod.ghost {
			ng := c.decl("ghost_"+k, "Int")
			c.assume("true", fmt.Sprintf("(>= %s %s)", ng, st.ghost[k]))
			st.ghost[k] = ng
		}
	}
	// 3. assume invariants
	for _, cl := range invs {
		env := c.specEnv(fr, st, fr.entry, hdr)
		env.pos = true
		g := c.specBool(env, cl.Expr)
		c.assume(st.reach, g)
	}
	li.hdrSt = st.clone()
	if len(decs) > 0 {
		env := c.specEnv(fr, st, fr.entry, hdr)
		d := c.specVal(env, decs[0].Expr, nil)
		li.decr0 = c.def("decr", c.sorts.sortOf(d.T), d.S)
		_ = d
	}
}

type modSet struct {
	keys   map[string]bool
	all    bool
	allocs bool
	ghost  bool
	bases  map[string][]ssa.Value // A: keys written only through these (loop-invariant) slices
	whole  map[string]bool        // A: keys that must be havocked entirely
}

// loopMods over-approximates what a loop body may modify.
func (c *Ctx) loopMods(fr *Frame, li *loopInfo) modSet {
	ms := modSet{keys: map[string]bool{}, bases: map[string][]ssa.Value{}, whole: map[string]bool{}}
	for b := range li.body {
		for _, in := range b.Instrs {
			if st, ok := in.(*ssa.Store); ok {
				if ia, ok := st.Addr.(*ssa.IndexAddr); ok {
					if _, isSlice := ia.X.Type().Underlying().(*types.Slice); isSlice {
						key, _ := c.ptrKeyOf(fr, st.Addr)
						if outsideLoop(li, ia.X) {
							ms.bases[key] = append(ms.bases[key], ia.X)
							ms.keys[key] = true
							continue
						}
					}
				}
			}
			// fields of an object reached through a loop-invariant pointer: only
			// that object of the struct heap changes
			if st, ok := in.(*ssa.Store); ok {
				if root, ok := fieldRoot(st.Addr); ok && outsideLoop(li, root) {
					if key, ok := c.ptrKeyOf(fr, st.Addr); ok && strings.HasPrefix(key, "H:") {
						ms.bases[key] = append(ms.bases[key], root)
						ms.keys[key] = true
						continue
					}
				}
			}
			if ci, ok := in.(ssa.CallInstruction); ok {
				// bytes.Buffer / strings.Builder methods change only the object holding the buffer
				if cal := ci.Common().StaticCallee(); cal != nil && isBufferMethod(cal) && len(ci.Common().Args) > 0 {
					if root, ok := fieldRoot(ci.Common().Args[0]); ok && outsideLoop(li, root) {
						if key, ok := c.ptrKeyOf(fr, ci.Common().Args[0]); ok && strings.HasPrefix(key, "H:") {
							ms.bases[key] = append(ms.bases[key], root)
							ms.keys[key] = true
							continue
						}
					}
				}
				if objs, ok := c.contractObjMods(fr, ci.Common()); ok {
					inv := true
					for _, o := range objs {
						if !outsideLoop(li, o.root) {
							inv = false
						}
					}
					if inv {
						for _, o := range objs {
							ms.bases[o.key] = append(ms.bases[o.key], o.root)
							ms.keys[o.key] = true
						}
						ms.ghost = true
						ms.allocs = true
						continue
					}
				}
			}
			before := map[string]bool{}
			for k := range ms.keys {
				before[k] = true
			}
			c.instrMods(fr, in, &ms, 0)
			for k := range ms.keys {
				if !before[k] && (strings.HasPrefix(k, "A:") || strings.HasPrefix(k, "H:")) {
					ms.whole[k] = true
				}
			}
			if st, ok := in.(*ssa.Store); ok {
				if k, ok := c.ptrKeyOf(fr, st.Addr); ok && (strings.HasPrefix(k, "A:") || strings.HasPrefix(k, "H:")) {
					ms.whole[k] = true
				}
			}
			if _, ok := in.(ssa.CallInstruction); ok {
				// a call that touches a key already written precisely may touch other objects of it
				mk := modSet{keys: map[string]bool{}, bases: map[string][]ssa.Value{}, whole: map[string]bool{}}
				c.instrMods(fr, in, &mk, 0)
				for k := range mk.keys {
					if strings.HasPrefix(k, "A:") || strings.HasPrefix(k, "H:") {
						ms.whole[k] = true
					}
				}
			}
		}
	}
	return ms
}

// rangeIndexPhi recognises the index variable go/ssa introduces for `range`
// over a slice or string length: phi [c, phi+1] whose increment is compared with
// `<` against a len(...) in the loop header.
func rangeIndexPhi(phi *ssa.Phi) (int64, ssa.Value, bool) {
	if len(phi.Edges) < 2 {
		return 0, nil, false
	}
	b, ok := phi.Type().Underlying().(*types.Basic)
	if !ok || b.Kind() != types.Int {
		return 0, nil, false
	}
	var start *ssa.Const
	var inc *ssa.BinOp
	for _, e := range phi.Edges {
		switch x := e.(type) {
		case *ssa.Const:
			if start != nil {
				return 0, nil, false
			}
			start = x
		case *ssa.BinOp:
			if inc != nil && inc != x {
				return 0, nil, false
			}
			inc = x
		default:
			return 0, nil, false
		}
	}
	if start == nil || inc == nil || inc.Op != token.ADD || inc.X != phi {
		return 0, nil, false
	}
	one, ok := inc.Y.(*ssa.Const)
	if !ok || one.Value == nil || one.Int64() != 1 || start.Value == nil {
		return 0, nil, false
	}
	if inc.Block() != phi.Block() {
		return 0, nil, false
	}
	// the header ends in: if inc < len(x)
	instrs := phi.Block().Instrs
	ifi, ok := instrs[len(instrs)-1].(*ssa.If)
	if !ok {
		return 0, nil, false
	}
	cmp, ok := ifi.Cond.(*ssa.BinOp)
	if !ok || cmp.Op != token.LSS || cmp.X != inc {
		return 0, nil, false
	}
	call, ok := cmp.Y.(*ssa.Call)
	if !ok {
		return 0, nil, false
	}
	if bi, ok := call.Call.Value.(*ssa.Builtin); !ok || bi.Name() != "len" {
		return 0, nil, false
	}
	return start.Int64(), call, true
}

// fieldRoot: the pointer a chain of field addresses (nested struct values)
// starts from.
func fieldRoot(v ssa.Value) (ssa.Value, bool) {
	fa, ok := v.(*ssa.FieldAddr)
	if !ok {
		return nil, false
	}
	for {
		inner, ok := fa.X.(*ssa.FieldAddr)
		if !ok {
			break
		}
		fa = inner
	}
	if _, ok := fa.X.Type().Underlying().(*types.Pointer); !ok {
		return nil, false
	}
	return fa.X, true
}

type objMod struct {
	root ssa.Value
	key  string
}

// contractObjMods: the call goes to a function under contract whose modifies
// clause only names fields of (or all of) objects passed as pointer
// parameters; returns those actual arguments with their heap keys.
func (c *Ctx) contractObjMods(fr *Frame, call *ssa.CallCommon) ([]objMod, bool) {
	callee := call.StaticCallee()
	if callee == nil {
		return nil, false
	}
	ct := c.eng.contractOf(callee)
	if ct == nil || c.callPolicy(callee, ct, fr.depth) != polContract {
		return nil, false
	}
	var out []objMod
	for _, cl := range ct.byKind("modifies") {
		for _, e := range cl.Exprs {
			if id, ok := e.(*ast.Ident); ok && id.Name == "nothing" {
				continue
			}
			if ce, ok := e.(*ast.CallExpr); ok {
				if id, ok := ce.Fun.(*ast.Ident); ok && id.Name == "nothing" {
					continue
				}
			}
			x := e
			if ce, ok := e.(*ast.CallExpr); ok {
				id, ok := ce.Fun.(*ast.Ident)
				if !ok || id.Name != "all" || len(ce.Args) != 1 {
					return nil, false
				}
				if _, isId := ce.Args[0].(*ast.Ident); !isId {
					return nil, false
				}
				x = ce.Args[0]
			}
			// x: ident or ident.f.g (struct values only below the root pointer)
			var rootId *ast.Ident
			var sels []string
			for {
				if pe, ok := x.(*ast.ParenExpr); ok {
					x = pe.X
					continue
				}
				if se, ok := x.(*ast.SelectorExpr); ok {
					sels = append([]string{se.Sel.Name}, sels...)
					x = se.X
					continue
				}
				break
			}
			rootId, _ = x.(*ast.Ident)
			if rootId == nil {
				return nil, false
			}
			idx := -1
			for i, p := range callee.Params {
				if p.Name() == rootId.Name {
					idx = i
				}
			}
			if idx < 0 || idx >= len(call.Args) {
				return nil, false
			}
			pt, ok := callee.Params[idx].Type().Underlying().(*types.Pointer)
			if !ok {
				return nil, false
			}
			if _, isSlice := pt.Elem().Underlying().(*types.Slice); isSlice {
				return nil, false
			}
			// walk the selectors: every step must stay inside the object (struct values, no pointer hops)
			t := pt.Elem()
			for _, sname := range sels {
				stt, ok := t.Underlying().(*types.Struct)
				if !ok {
					return nil, false
				}
				found := false
				for i := 0; i < stt.NumFields(); i++ {
					if stt.Field(i).Name() == sname {
						t = stt.Field(i).Type()
						found = true
					}
				}
				if !found {
					return nil, false // promoted fields etc.: not resolved here
				}
			}
			out = append(out, objMod{root: call.Args[idx], key: c.heapKeyFor(pt.Elem())})
		}
	}
	return out, true
}

func (c *Ctx) ptrKeyOf(fr *Frame, v ssa.Value) (string, bool) {
	switch x := v.(type) {
	case *ssa.Alloc:
		if p, ok := fr.cells[x]; ok {
			return p.Key, true
		}
		if !x.Heap && !c.escapes(x) {
			return fmt.Sprintf("L:%s%s", fr.pfx, x.Name()), true
		}
		return c.heapKeyFor(x.Type().(*types.Pointer).Elem()), true
	case *ssa.FieldAddr:
		return c.ptrKeyOf(fr, x.X)
	case *ssa.IndexAddr:
		if _, ok := x.X.Type().Underlying().(*types.Slice); ok {
			return c.arrKeyFor(x.X.Type().Underlying().(*types.Slice).Elem()), true
		}
		return c.ptrKeyOf(fr, x.X)
	case *ssa.Global:
		return "G:" + x.Pkg.Pkg.Path() + "." + x.Name(), true
	case *ssa.Convert, *ssa.ChangeType:
		return "", false
	}
	if pt, ok := v.Type().Underlying().(*types.Pointer); ok {
		return c.heapKeyFor(pt.Elem()), true
	}
	return "", false
}

func (c *Ctx) instrMods(fr *Frame, in ssa.Instruction, ms *modSet, depth int) {
	switch x := in.(type) {
	case *ssa.Store:
		if k, ok := c.ptrKeyOf(fr, x.Addr); ok {
			ms.keys[k] = true
		} else {
			ms.all = true
		}
	case *ssa.Alloc, *ssa.MakeSlice, *ssa.MakeInterface, *ssa.MakeClosure, *ssa.MakeMap, *ssa.MakeChan:
		ms.allocs = true
		if a, ok := x.(*ssa.Alloc); ok {
			if k, ok := c.ptrKeyOf(fr, a); ok {
				ms.keys[k] = true
			}
		}
		if m, ok := x.(*ssa.MakeSlice); ok {
			ms.keys[c.arrKeyFor(m.Type().Underlying().(*types.Slice).Elem())] = true
		}
	case *ssa.Call:
		c.callMods(fr, &x.Call, ms, depth)
	case *ssa.Defer:
		c.callMods(fr, &x.Call, ms, depth)
	case *ssa.Send:
		ms.ghost = true
	case *ssa.Go, *ssa.Select:
		ms.all = true
	case *ssa.MapUpdate:
		// maps are not in the heap model
	}
}

func (c *Ctx) callMods(fr *Frame, call *ssa.CallCommon, ms *modSet, depth int) {
	ms.ghost = true
	if b, ok := call.Value.(*ssa.Builtin); ok {
		switch b.Name() {
		case "append", "copy":
			if len(call.Args) > 0 {
				if sl, ok := call.Args[0].Type().Underlying().(*types.Slice); ok {
					ms.keys[c.arrKeyFor(sl.Elem())] = true
				}
			}
			ms.allocs = true
		}
		return
	}
	callee := call.StaticCallee()
	if callee == nil {
		if call.IsInvoke() {
			if ct := c.eng.invokeContract(call); ct != nil {
				c.contractMods(ct, ms)
				return
			}
		} else if ct := c.eng.funcTypeContract(call); ct != nil {
			if !ct.Pure {
				c.contractMods(ct, ms)
			}
			return
		}
		ms.all = true
		return
	}
	ct := c.eng.contractOf(callee)
	switch c.callPolicy(callee, ct, depth+fr.depth) {
	case polInline:
		if depth > 6 {
			ms.all = true
			return
		}
		sub := c.newFrame(callee, fr.depth+depth+1)
		for _, b := range callee.Blocks {
			for _, in := range b.Instrs {
				c.instrMods(sub, in, ms, depth+1)
			}
		}
	case polContract:
		c.contractMods(ct, ms)
	case polPure:
	default:
		ms.all = true
	}
}

func (c *Ctx) contractMods(ct *Contract, ms *modSet) {
	ms.allocs = true
	var callee *ssa.Function
	if !strings.Contains(ct.Key, ":") {
		callee = c.eng.findFunc(ct.PkgPath, ct.Key)
	}
	for _, cl := range ct.byKind("modifies") {
		for _, e := range cl.Exprs {
			keys, ok := c.modKeysOf(e, callee, ct)
			if !ok {
				ms.all = true
				continue
			}
			for _, k := range keys {
				ms.keys[k] = true
			}
		}
	}
}

// modKeysOf resolves a modifies location to the heap keys (by type) it can
// touch, without evaluating it: x.f -> objects of x's struct type, x[i] ->
// element arrays of x's element type, all(x), heap(T).
func (c *Ctx) modKeysOf(e ast.Expr, callee *ssa.Function, ct *Contract) ([]string, bool) {
	pkg := c.eng.pkgByPath(ct.PkgPath)
	var typeOf func(e ast.Expr) types.Type
	typeOf = func(e ast.Expr) types.Type {
		switch x := e.(type) {
		case *ast.ParenExpr:
			return typeOf(x.X)
		case *ast.Ident:
			if callee != nil {
				for _, p := range callee.Params {
					if p.Name() == x.Name {
						return p.Type()
					}
				}
			}
			return nil
		case *ast.StarExpr:
			if t := typeOf(x.X); t != nil {
				if pt, ok := t.Underlying().(*types.Pointer); ok {
					return pt.Elem()
				}
			}
			return nil
		case *ast.SelectorExpr:
			t := typeOf(x.X)
			if t == nil {
				return nil
			}
			p := pkg
			if n, ok := derefNamed(t); ok && n.Obj().Pkg() != nil {
				p = n.Obj().Pkg()
			}
			obj, _, _ := types.LookupFieldOrMethod(t, true, p, x.Sel.Name)
			if v, ok := obj.(*types.Var); ok {
				return v.Type()
			}
			return nil
		case *ast.IndexExpr:
			t := typeOf(x.X)
			if t == nil {
				return nil
			}
			switch u := t.Underlying().(type) {
			case *types.Slice:
				return u.Elem()
			case *types.Array:
				return u.Elem()
			}
			return nil
		}
		return nil
	}
	// key of the object that holds location e
	var holder func(e ast.Expr) ([]string, bool)
	holder = func(e ast.Expr) ([]string, bool) {
		switch x := e.(type) {
		case *ast.ParenExpr:
			return holder(x.X)
		case *ast.SelectorExpr:
			t := typeOf(x.X)
			if t == nil {
				return nil, false
			}
			if pt, ok := t.Underlying().(*types.Pointer); ok {
				// possibly through embedded pointers: include every struct type on the path
				keys := []string{c.heapKeyFor(pt.Elem())}
				p := pkg
				if n, ok := derefNamed(t); ok && n.Obj().Pkg() != nil {
					p = n.Obj().Pkg()
				}
				_, index, _ := types.LookupFieldOrMethod(t, true, p, x.Sel.Name)
				cur := pt.Elem()
				for _, i := range index[:max(0, len(index)-1)] {
					st, ok := cur.Underlying().(*types.Struct)
					if !ok {
						break
					}
					ft := st.Field(i).Type()
					if fp, ok := ft.Underlying().(*types.Pointer); ok {
						keys = append(keys, c.heapKeyFor(fp.Elem()))
						cur = fp.Elem()
					} else {
						cur = ft
					}
				}
				return keys, true
			}
			return holder(x.X) // field of a struct value held somewhere
		case *ast.IndexExpr:
			t := typeOf(x.X)
			if t == nil {
				return nil, false
			}
			if sl, ok := t.Underlying().(*types.Slice); ok {
				return []string{c.arrKeyFor(sl.Elem())}, true
			}
			return holder(x.X)
		case *ast.StarExpr:
			t := typeOf(x.X)
			if t == nil {
				return nil, false
			}
			if pt, ok := t.Underlying().(*types.Pointer); ok {
				return []string{c.heapKeyFor(pt.Elem())}, true
			}
		}
		return nil, false
	}
	if call, ok := e.(*ast.CallExpr); ok {
		if id, ok := call.Fun.(*ast.Ident); ok && len(call.Args) <= 1 {
			switch id.Name {
			case "everything":
				return nil, false
			case "all":
				t := typeOf(call.Args[0])
				if t == nil {
					return nil, false
				}
				switch u := t.Underlying().(type) {
				case *types.Slice:
					return []string{c.arrKeyFor(u.Elem())}, true
				case *types.Pointer:
					return []string{c.heapKeyFor(u.Elem())}, true
				}
				return nil, false
			case "heap":
				env := &SpecEnv{c: c, pkg: pkg}
				if t := env.typeOf(call.Args[0]); t != nil {
					return []string{c.heapKeyFor(t), c.arrKeyFor(t)}, true
				}
				return nil, false
			}
		}
	}
	return holder(e)
}

// escapes reports whether the address of a local Alloc flows anywhere other
// than loads, stores-to and field/index address computations.
func (c *Ctx) escapes(a *ssa.Alloc) bool {
	var check func(v ssa.Value, depth int) bool
	check = func(v ssa.Value, depth int) bool {
		refs := v.Referrers()
		if refs == nil {
			return true
		}
		for _, r := range *refs {
			switch x := r.(type) {
			case *ssa.Store:
				if x.Val == v {
					return true
				}
			case *ssa.UnOp:
				if x.Op != token.MUL {
					return true
				}
			case *ssa.FieldAddr:
				if check(x, depth+1) {
					return true
				}
			case *ssa.IndexAddr:
				if check(x, depth+1) {
					return true
				}
			case *ssa.DebugRef:
			case *ssa.Convert:
				// unsafe.Pointer round trips used for bit casts
				if check(x, depth+1) {
					return true
				}
			default:
				return true
			}
		}
		return false
	}
	return check(a, 0)
}

// ---- block execution ----

func (c *Ctx) execBlock(fr *Frame, b *ssa.BasicBlock, st *State) {
	for _, in := range b.Instrs {
		if !c.execInstr(fr, b, st, in) {
			break
		}
	}
	fr.out[b] = st
}

func (c *Ctx) rteOblige(fr *Frame, st *State, kind string, in ssa.Instruction, goal string) {
	if goal == "true" {
		return
	}
	if !c.rte {
		// `norte`: the check is not an obligation of this contract, but execution only
		// continues past it when it held (otherwise the function has panicked)
		c.assume(st.reach, goal)
		return
	}
	fr.callSeq["rte."+kind]++
	name := fmt.Sprintf("rte.%s#%d", kind, fr.callSeq["rte."+kind])
	if !fr.top {
		name = fmt.Sprintf("rte.%s@%s#%d", kind, fr.fn.Name(), fr.callSeq["rte."+kind])
	}
	c.oblige("rte", name, st.reach, goal, c.pos(in.Pos()))
	// after the check, execution continues only if it held
	c.assume(st.reach, goal)
}

func (c *Ctx) execInstr(fr *Frame, b *ssa.BasicBlock, st *State, in ssa.Instruction) bool {
	if fr.top {
		c.curTop = in
	}
	switch x := in.(type) {
	case *ssa.DebugRef:
		return true
	case *ssa.Alloc:
		et := x.Type().(*types.Pointer).Elem()
		if !x.Heap && !c.escapes(x) {
			key := fmt.Sprintf("L:%s%s", fr.pfx, x.Name())
			c.ensureHeapSort(key, et)
			p := &Ptr{Key: key, ET: et}
			fr.cells[x] = p
			st.heaps[key] = c.def("cell0", c.sorts.sortOf(et), c.sorts.zero(et))
			fr.vals[x] = Val{T: x.Type(), P: p}
			return true
		}
		key := c.heapKeyFor(et)
		c.ensureHeapSort(key, et)
		ref := c.def(fr.pfx+x.Name(), "Int", st.alloc)
		st.alloc = c.def("alloc", "Int", fmt.Sprintf("(+ %s 1)", ref))
		p := &Ptr{Key: key, Base: ref, ET: et}
		c.store(st, p, c.sorts.zero(et))
		fr.vals[x] = Val{T: x.Type(), S: ref, P: p}
		if fr.top && privateAlloc(x) {
			c.privRefs = append(c.privRefs, privRef{key: key, ref: ref})
		} else if fr.top {
			// private until it is captured by a closure: unknown code that runs
			// before the closure exists cannot reach the variable
			if until, ok := privateUntilCaptured(x); ok {
				c.privRefs = append(c.privRefs, privRef{key: key, ref: ref, until: until})
			}
		}
		return true
	case *ssa.Phi:
		if _, ok := fr.vals[x]; ok { // loop header phi already havocked
			return true
		}
		var vs []Val
		var conds []string
		for i, p := range b.Preds {
			if fr.out[p] == nil {
				continue
			}
			vs = append(vs, c.val(fr, fr.out[p], x.Edges[i]))
			conds = append(conds, c.edge(fr, p, b))
		}
		if len(vs) == 0 {
			fr.vals[x] = c.havocVal(x.Type(), "phi")
			return true
		}
		fr.vals[x] = c.mergeVals(vs, conds)
		return true
	case *ssa.BinOp:
		xv, yv := c.val(fr, st, x.X), c.val(fr, st, x.Y)
		if x.Op == token.ADD && isStringType(x.X.Type()) && xv.S != "" && yv.S != "" {
			// string concatenation allocates len(x)+len(y) bytes
			_, cx := x.X.(*ssa.Const)
			_, cy := x.Y.(*ssa.Const)
			if !cx && !cy {
				c.allocOblige(fr, st, x, c.idxAdd(fmt.Sprintf("(str_len %s)", xv.S), fmt.Sprintf("(str_len %s)", yv.S)), 1, "string concatenation")
			}
			nv := c.havocVal(x.Type(), "concat")
			c.assume(st.reach, fmt.Sprintf("(= (str_len %s) %s)", nv.S, c.idxAdd(fmt.Sprintf("(str_len %s)", xv.S), fmt.Sprintf("(str_len %s)", yv.S))))
			fr.vals[x] = nv
			return true
		}
		res, pc, ok := c.binop(x.Op, xv.S, yv.S, x.X.Type(), x.Y.Type())
		if !ok || xv.S == "" || yv.S == "" {
			c.note(fmt.Sprintf("unsupported binop %s on %s", x.Op, x.X.Type()))
			fr.vals[x] = c.havocVal(x.Type(), "binop")
			return true
		}
		if pc != "" {
			kind := "div0"
			if x.Op == token.SHL || x.Op == token.SHR {
				kind = "shift"
			}
			c.rteOblige(fr, st, kind, x, not(pc))
		}
		c.bind(fr, x, x.Type(), res)
		return true
	case *ssa.UnOp:
		if x.Op == token.MUL {
			pv := c.val(fr, st, x.X)
			if pv.P == nil {
				c.leave("load through unknown pointer in " + fr.fn.Name())
				fr.vals[x] = c.havocVal(x.Type(), "load")
				return true
			}
			if pv.P.Base != "" && !isAllocBase(fr, x.X) {
				c.rteOblige(fr, st, "nil", x, fmt.Sprintf("(not (= %s 0))", pv.P.Base))
			}
			c.assumeTypeInv(st, pv.P)
			lv := c.load(st, pv.P)
			if lv.S != "" {
				nv := c.bind(fr, x, x.Type(), lv.S)
				c.assumeLoaded(st, x.Type(), nv.S)
			} else {
				fr.vals[x] = lv
			}
			return true
		}
		if x.Op == token.ARROW {
			c.leave("channel receive")
			fr.vals[x] = c.havocVal(x.Type(), "recv")
			return true
		}
		xv := c.val(fr, st, x.X)
		res, ok := c.unop(x.Op, xv.S, x.X.Type())
		if !ok {
			c.note("unsupported unop " + x.Op.String())
			fr.vals[x] = c.havocVal(x.Type(), "unop")
			return true
		}
		c.bind(fr, x, x.Type(), res)
		return true
	case *ssa.Store:
		pv := c.val(fr, st, x.Addr)
		v := c.val(fr, st, x.Val)
		if pv.P == nil {
			c.leave("store through unknown pointer in " + fr.fn.Name())
			return true
		}
		if v.S == "" {
			c.leave("store of interior pointer / tuple in " + fr.fn.Name())
			return true
		}
		if pv.P.Base != "" && !isAllocBase(fr, x.Addr) {
			c.rteOblige(fr, st, "nil", x, fmt.Sprintf("(not (= %s 0))", pv.P.Base))
		}
		c.store(st, pv.P, v.S)
		return true
	case *ssa.FieldAddr:
		pv := c.val(fr, st, x.X)
		if pv.P == nil {
			c.leave("fieldaddr of unknown pointer")
			fr.vals[x] = Val{T: x.Type()}
			return true
		}
		stt := x.X.Type().Underlying().(*types.Pointer).Elem()
		c.sorts.sortOf(stt)
		ft := stt.Underlying().(*types.Struct).Field(x.Field).Type()
		np := &Ptr{Key: pv.P.Key, Base: pv.P.Base, ET: ft, Cast: nil}
		if pv.P.Cast != nil {
			c.leave("field of unsafe-cast pointer")
		}
		np.Path = append(append([]Sel{}, pv.P.Path...), Sel{Field: x.Field, ST: stt})
		if pv.P.Base != "" && len(pv.P.Path) == 0 && !isAllocBase(fr, x.X) {
			c.rteOblige(fr, st, "nil", x, fmt.Sprintf("(not (= %s 0))", pv.P.Base))
		}
		fr.vals[x] = Val{T: x.Type(), P: np}
		return true
	case *ssa.Field:
		xv := c.val(fr, st, x.X)
		info := c.sorts.info(x.X.Type())
		c.bind(fr, x, x.Type(), fmt.Sprintf("(%s %s)", info.fields[x.Field], xv.S))
		return true
	case *ssa.IndexAddr:
		xv := c.val(fr, st, x.X)
		iv := c.val(fr, st, x.Index)
		idx := c.toIdx(iv.S, x.Index.Type())
		switch u := x.X.Type().Underlying().(type) {
		case *types.Slice:
			key := c.arrKeyFor(u.Elem())
			c.ensureHeapSort(key, u.Elem())
			c.rteOblige(fr, st, "index", x, c.inBounds(idx, fmt.Sprintf("(s_len %s)", xv.S)))
			c.registerIdx(idx)
			off := c.idxAdd(fmt.Sprintf("(s_off %s)", xv.S), idx)
			offn := c.def("ix", c.sorts.idxSort(), off)
			fr.vals[x] = Val{T: x.Type(), P: &Ptr{Key: key, Base: fmt.Sprintf("(s_arr %s)", xv.S), Path: []Sel{{IsIndex: true, Index: offn}}, ET: u.Elem()}}
		case *types.Pointer:
			arr := u.Elem().Underlying().(*types.Array)
			if xv.P == nil {
				c.leave("indexaddr of unknown array pointer")
				fr.vals[x] = Val{T: x.Type()}
				return true
			}
			c.rteOblige(fr, st, "index", x, c.inBounds(idx, c.sorts.idxLit(arr.Len())))
			np := &Ptr{Key: xv.P.Key, Base: xv.P.Base, ET: arr.Elem()}
			np.Path = append(append([]Sel{}, xv.P.Path...), Sel{IsIndex: true, Index: idx})
			fr.vals[x] = Val{T: x.Type(), P: np}
		default:
			c.leave("indexaddr on " + x.X.Type().String())
			fr.vals[x] = Val{T: x.Type()}
		}
		return true
	case *ssa.Index:
		xv := c.val(fr, st, x.X)
		iv := c.val(fr, st, x.Index)
		idx := c.toIdx(iv.S, x.Index.Type())
		switch u := x.X.Type().Underlying().(type) {
		case *types.Array:
			c.rteOblige(fr, st, "index", x, c.inBounds(idx, c.sorts.idxLit(u.Len())))
			c.bind(fr, x, x.Type(), fmt.Sprintf("(select %s %s)", xv.S, idx))
		case *types.Basic: // string
			c.rteOblige(fr, st, "index", x, c.inBounds(idx, fmt.Sprintf("(str_len %s)", xv.S)))
			c.bind(fr, x, x.Type(), fmt.Sprintf("(str_at %s %s)", xv.S, idx))
		default:
			fr.vals[x] = c.havocVal(x.Type(), "index")
		}
		return true
	case *ssa.Lookup:
		xv := c.val(fr, st, x.X)
		if isStringType(x.X.Type()) {
			iv := c.val(fr, st, x.Index)
			idx := c.toIdx(iv.S, x.Index.Type())
			c.rteOblige(fr, st, "index", x, c.inBounds(idx, fmt.Sprintf("(str_len %s)", xv.S)))
			nv := c.bind(fr, x, x.Type(), fmt.Sprintf("(str_at %s %s)", xv.S, idx))
			c.assumeRange(st.reach, x.Type(), nv.S, 0)
			return true
		}
		hv := c.havocVal(x.Type(), "maplookup")
		fr.vals[x] = hv
		// a package-level table built once from constants and only ever read:
		// the value found is one of the table's values, the zero value when absent
		if ld, ok := x.X.(*ssa.UnOp); ok && ld.Op == token.MUL {
			if g, ok := ld.X.(*ssa.Global); ok {
				if vals, ok := c.eng.constMapValues(g); ok && len(vals) <= 200 {
					vs, okS := hv.S, "true"
					vt := x.Type()
					if x.CommaOk && len(hv.Elems) == 2 {
						vs, okS = hv.Elems[0].S, hv.Elems[1].S
						vt = hv.Elems[0].T
					}
					if vs != "" {
						var alts []string
						seen := map[string]bool{}
						for _, cv := range vals {
							t := c.val(fr, st, cv).S
							if t != "" && !seen[t] {
								seen[t] = true
								alts = append(alts, fmt.Sprintf("(= %s %s)", vs, t))
							}
						}
						zero := fmt.Sprintf("(= %s %s)", vs, c.sorts.zero(vt))
						if x.CommaOk {
							c.assume(st.reach, fmt.Sprintf("(ite %s %s %s)", okS, or(alts...), zero))
						} else {
							c.assume(st.reach, or(append(alts, zero)...))
						}
						c.trusted["constant package-level maps (built once in init from constants, only read in the module): a lookup yields one of the table's values or the zero value"] = true
						return true
					}
				}
			}
		}
		c.note("map lookup havocked")
		return true
	case *ssa.Slice:
		return c.execSlice(fr, st, x)
	case *ssa.MakeSlice:
		elem := x.Type().Underlying().(*types.Slice).Elem()
		key := c.arrKeyFor(elem)
		c.ensureHeapSort(key, elem)
		ln := c.val(fr, st, x.Len)
		cp := c.val(fr, st, x.Cap)
		l := c.toIdx(ln.S, x.Len.Type())
		cpt := c.toIdx(cp.S, x.Cap.Type())
		{
			// runtime.makeslice panics when cap*elemsize exceeds the address space (2^47 bytes)
			es := elemSize(elem)
			if es < 1 {
				es = 1
			}
			var fits string
			if c.mode == BV {
				fits = fmt.Sprintf("(and (bvsle %s #x0000800000000000) (bvsle (bvmul %s %s) #x0000800000000000))", cpt, cpt, bvLit(uint64(es)))
			} else {
				fits = fmt.Sprintf("(<= (* %s %d) 140737488355328)", cpt, es)
			}
			c.rteOblige(fr, st, "makeslice", x, and(c.idxLe(c.sorts.idxLit(0), l), c.idxLe(l, cpt), fits))
		}
		if _, isConst := x.Cap.(*ssa.Const); !isConst {
			c.allocOblige(fr, st, x, cpt, elemSize(elem), "make")
		}
		ref := c.def(fr.pfx+x.Name()+"_arr", "Int", st.alloc)
		st.alloc = c.def("alloc", "Int", fmt.Sprintf("(+ %s 1)", ref))
		h := c.heapSym(st, key)
		zarr := fmt.Sprintf("((as const (Array %s %s)) %s)", c.sorts.idxSort(), c.sorts.sortOf(elem), c.sorts.zero(elem))
		st.heaps[key] = c.def("heap", c.heapSorts[key], fmt.Sprintf("(store %s %s %s)", h, ref, zarr))
		c.bind(fr, x, x.Type(), fmt.Sprintf("(mk_Slice %s %s %s %s)", ref, c.sorts.idxLit(0), l, cpt))
		return true
	case *ssa.Convert:
		return c.execConvert(fr, st, x)
	case *ssa.ChangeType:
		xv := c.val(fr, st, x.X)
		nv := xv
		nv.T = x.Type()
		fr.vals[x] = nv
		return true
	case *ssa.ChangeInterface:
		xv := c.val(fr, st, x.X)
		nv := xv
		nv.T = x.Type()
		fr.vals[x] = nv
		return true
	case *ssa.MakeInterface:
		xv := c.val(fr, st, x.X)
		ct := c.sorts.ifaceCtor(x.X.Type())
		defer func() {
			if v, ok := fr.vals[x]; ok {
				v.Dyn = &dynVal{T: x.X.Type(), V: xv}
				fr.vals[x] = v
			}
		}()
		if ct != nil && xv.S != "" {
			c.bind(fr, x, x.Type(), fmt.Sprintf("(%s %s)", ct.name, xv.S))
		} else {
			id := c.decl("ifid", "Int")
			tag := c.sorts.otherTagOf(x.X.Type())
			c.bind(fr, x, x.Type(), fmt.Sprintf("(if_other %d %s)", tag, id))
			if xv.S != "" {
				uf := "ifo_val_" + shortTypeName(x.X.Type())
				c.declUF(uf, []string{"Int"}, c.sorts.sortOf(x.X.Type()))
				c.assume("true", fmt.Sprintf("(= (%s %s) %s)", uf, id, xv.S))
			}
		}
		return true
	case *ssa.TypeAssert:
		return c.execTypeAssert(fr, st, x)
	case *ssa.Extract:
		tv := c.val(fr, st, x.Tuple)
		if x.Index < len(tv.Elems) {
			fr.vals[x] = tv.Elems[x.Index]
		} else {
			fr.vals[x] = c.havocVal(x.Type(), "extract")
		}
		return true
	case *ssa.Call:
		res, cont := c.execCall(fr, st, &x.Call, x, x.Pos())
		fr.vals[x] = res
		return cont
	case *ssa.Defer:
		d := deferred{cond: st.reach, call: &x.Call, pos: x.Pos()}
		for _, a := range x.Call.Args {
			d.args = append(d.args, c.val(fr, st, a))
		}
		if !x.Call.IsInvoke() {
			d.fnv = c.val(fr, st, x.Call.Value)
		} else {
			d.fnv = c.val(fr, st, x.Call.Value)
		}
		fr.defers = append(fr.defers, d)
		return true
	case *ssa.RunDefers:
		c.runDefers(fr, st, false)
		return true
	case *ssa.MakeClosure:
		fn := x.Fn.(*ssa.Function)
		var binds []Val
		for _, bv := range x.Bindings {
			binds = append(binds, c.val(fr, st, bv))
		}
		id := c.decl("clo", "Int")
		fr.vals[x] = Val{T: x.Type(), S: id, Fn: fn, Clo: binds}
		return true
	case *ssa.If:
		cv := c.val(fr, st, x.Cond)
		fr.edgeCond[[2]int{b.Index, b.Succs[0].Index}] = c.def("e", "Bool", and(st.reach, cv.S))
		fr.edgeCond[[2]int{b.Index, b.Succs[1].Index}] = c.def("e", "Bool", and(st.reach, not(cv.S)))
		c.backEdges(fr, b, st)
		return false
	case *ssa.Jump:
		fr.edgeCond[[2]int{b.Index, b.Succs[0].Index}] = st.reach
		c.backEdges(fr, b, st)
		return false
	case *ssa.Return:
		var rs []Val
		for _, r := range x.Results {
			rs = append(rs, c.val(fr, st, r))
		}
		fr.retReach = append(fr.retReach, st.reach)
		fr.retVals = append(fr.retVals, rs)
		fr.retSts = append(fr.retSts, st.clone())
		return false
	case *ssa.Panic:
		v := c.val(fr, st, x.X)
		fr.callSeq["panic"]++
		fr.panics = append(fr.panics, PanicExit{cond: st.reach, st: st.clone(), val: v,
			site: fmt.Sprintf("panic#%d@%s", fr.callSeq["panic"], fr.fn.Name()), pos: x.Pos()})
		return false
	case *ssa.MakeMap:
		fr.vals[x] = c.havocVal(x.Type(), "map")
		return true
	case *ssa.MapUpdate:
		c.note("map update ignored (maps outside the heap model)")
		return true
	case *ssa.Range:
		// iteration over a map or string: the iterator is opaque
		c.note("range over a map/string: arbitrary number of iterations over arbitrary elements (over-approximation)")
		fr.vals[x] = Val{T: x.Type(), S: "0"}
		return true
	case *ssa.Next:
		// (ok, key, value): every component unconstrained
		tup := x.Type().(*types.Tuple)
		var es []Val
		for i := 0; i < tup.Len(); i++ {
			et := tup.At(i).Type()
			if b, isB := et.(*types.Basic); isB && b.Kind() == types.Invalid {
				es = append(es, Val{T: et})
				continue
			}
			es = append(es, c.havocVal(et, "rangenext"))
		}
		fr.vals[x] = Val{T: x.Type(), Elems: es}
		return true
	case *ssa.Send:
		// sequential model: handing a value to a channel does not change the
		// sender's state; the number of sends is counted (ghost sent) so that
		// contracts can bound it against the channel capacity.  Blocking and
		// what other goroutines do meanwhile are not modelled.
		c.trusted["channel send: no effect on the sender's sequential state; counted in ghost(sent); blocking / other goroutines not modelled"] = true
		cur, ok := st.ghost["sent"]
		if !ok {
			cur = "0"
		}
		st.ghost["sent"] = c.def("ghost_sent", "Int", fmt.Sprintf("(+ %s 1)", cur))
		return true
	case *ssa.Go, *ssa.Select, *ssa.MakeChan:
		c.leave("goroutines/channels in " + fr.fn.Name())
		if v, ok := in.(ssa.Value); ok {
			fr.vals[v] = c.havocVal(v.Type(), "chan")
		}
		c.havocAll(st, true)
		return true
	case *ssa.SliceToArrayPointer, *ssa.MultiConvert:
		c.leave(fmt.Sprintf("unsupported instruction %T", in))
		fr.vals[in.(ssa.Value)] = c.havocVal(in.(ssa.Value).Type(), "unsup")
		return true
	}
	c.leave(fmt.Sprintf("unsupported instruction %T in %s", in, fr.fn.Name()))
	if v, ok := in.(ssa.Value); ok {
		fr.vals[v] = c.havocVal(v.Type(), "unsup")
	}
	return true
}

func isAllocBase(fr *Frame, v ssa.Value) bool {
	switch x := v.(type) {
	case *ssa.Alloc:
		return true
	case *ssa.FieldAddr:
		return isAllocBase(fr, x.X)
	case *ssa.IndexAddr:
		if _, ok := x.X.Type().Underlying().(*types.Pointer); ok {
			return isAllocBase(fr, x.X)
		}
		return true // slice element addresses are non-nil once bounds hold
	case *ssa.Global:
		return true
	}
	return false
}

func (c *Ctx) assumeLoaded(st *State, t types.Type, term string) {
	if needsRange(t, c.mode, 0) {
		c.assumeRange(st.reach, t, term, 0)
	}
	c.assumeAllocated(st.reach, st.alloc, t, term, 0)
}

// assumeAllocated: every reference reachable by value from a loaded / incoming
// value (pointers, backing arrays of slices, also inside structs) was allocated
// before now, so it cannot alias an object allocated later.
func (c *Ctx) assumeAllocated(guard, alloc string, t types.Type, term string, depth int) {
	if depth > 2 {
		return
	}
	switch u := t.Underlying().(type) {
	case *types.Pointer:
		c.assume(guard, fmt.Sprintf("(< %s %s)", term, alloc))
	case *types.Slice:
		c.assume(guard, fmt.Sprintf("(< (s_arr %s) %s)", term, alloc))
	case *types.Struct:
		info := c.sorts.info(t)
		for i, ft := range info.ftypes {
			switch ft.Underlying().(type) {
			case *types.Pointer, *types.Slice, *types.Struct:
				c.assumeAllocated(guard, alloc, ft, fmt.Sprintf("(%s %s)", info.fields[i], term), depth+1)
			}
		}
		_ = u
	}
}

// backEdges asserts loop invariants on back edges leaving block b.
func (c *Ctx) backEdges(fr *Frame, b *ssa.BasicBlock, st *State) {
	for _, s := range b.Succs {
		li := fr.loopOf[s]
		if li == nil || !s.Dominates(b) {
			continue
		}
		cond := c.edge(fr, b, s)
		// values of header phis on this edge
		saved := map[*ssa.Phi]Val{}
		pi := -1
		for i, p := range s.Preds {
			if p == b {
				pi = i
			}
		}
		for _, in := range s.Instrs {
			phi, ok := in.(*ssa.Phi)
			if !ok {
				break
			}
			saved[phi] = fr.vals[phi]
		}
		newVals := map[*ssa.Phi]Val{}
		for phi := range saved {
			newVals[phi] = c.val(fr, st, phi.Edges[pi])
		}
		for phi, v := range newVals {
			fr.vals[phi] = v
		}
		bst := st.clone()
		bst.reach = cond
		if fr.contract != nil {
			for _, cl := range fr.contract.Clauses {
				if cl.Loop != li.ordinal {
					continue
				}
				switch cl.Kind {
				case "invariant":
					env := c.specEnv(fr, bst, fr.entry, s)
					g := c.specBool(env, cl.Expr)
					c.oblige("inv.keep", fmt.Sprintf("loop%d/inv.keep#%d", li.ordinal, cl.Idx), cond, g, c.pos(li.pos)).Desc = cl.Text
				case "decreases":
					env := c.specEnv(fr, bst, fr.entry, s)
					d := c.specVal(env, cl.Expr, nil)
					lt, _, _ := c.binop(token.LSS, d.S, li.decr0, d.T, d.T)
					zero := c.sorts.zero(d.T)
					ge, _, _ := c.binop(token.GEQ, li.decr0, zero, d.T, d.T)
					c.oblige("decreases", fmt.Sprintf("loop%d/decreases", li.ordinal), cond, and(lt, ge), c.pos(li.pos)).Desc = cl.Text
				case "charges":
					g := cl.Text
					cur, ok1 := bst.ghost[g]
					h, ok2 := li.hdrSt.ghost[g]
					if ok1 && ok2 {
						c.oblige("charges", fmt.Sprintf("loop%d/charges:%s", li.ordinal, g), cond, fmt.Sprintf("(> %s %s)", cur, h), c.pos(li.pos)).Desc = "every iteration advances ghost " + g
					} else {
						c.oblige("charges", fmt.Sprintf("loop%d/charges:%s", li.ordinal, g), cond, "false", c.pos(li.pos)).Desc = "ghost counter not tracked"
					}
				}
			}
		}
		for phi, v := range saved {
			fr.vals[phi] = v
		}
	}
}

func (c *Ctx) toIdx(term string, t types.Type) string {
	bits, signed, ok := isIntType(t)
	if !ok {
		return term
	}
	if c.mode == INT {
		return term
	}
	if bits == 64 {
		return term
	}
	if signed {
		return fmt.Sprintf("((_ sign_extend %d) %s)", 64-bits, term)
	}
	return fmt.Sprintf("((_ zero_extend %d) %s)", 64-bits, term)
}

func (c *Ctx) inBounds(idx, ln string) string {
	if c.mode == BV {
		return fmt.Sprintf("(and (bvsle #x0000000000000000 %s) (bvslt %s %s))", idx, idx, ln)
	}
	return fmt.Sprintf("(and (<= 0 %s) (< %s %s))", idx, idx, ln)
}

func (c *Ctx) idxLe(a, b string) string {
	if c.mode == BV {
		return fmt.Sprintf("(bvsle %s %s)", a, b)
	}
	return fmt.Sprintf("(<= %s %s)", a, b)
}

func (c *Ctx) idxAdd(a, b string) string {
	if c.mode == BV {
		return fmt.Sprintf("(bvadd %s %s)", a, b)
	}
	return fmt.Sprintf("(+ %s %s)", a, b)
}

func (c *Ctx) idxSub(a, b string) string {
	if c.mode == BV {
		return fmt.Sprintf("(bvsub %s %s)", a, b)
	}
	return fmt.Sprintf("(- %s %s)", a, b)
}

func (c *Ctx) execSlice(fr *Frame, st *State, x *ssa.Slice) bool {
	xv := c.val(fr, st, x.X)
	getIdx := func(v ssa.Value, def string) string {
		if v == nil {
			return def
		}
		iv := c.val(fr, st, v)
		return c.toIdx(iv.S, v.Type())
	}
	zero := c.sorts.idxLit(0)
	switch u := x.X.Type().Underlying().(type) {
	case *types.Slice:
		lo := getIdx(x.Low, zero)
		hi := getIdx(x.High, fmt.Sprintf("(s_len %s)", xv.S))
		mx := getIdx(x.Max, fmt.Sprintf("(s_cap %s)", xv.S))
		c.rteOblige(fr, st, "slice", x, and(c.idxLe(zero, lo), c.idxLe(lo, hi), c.idxLe(hi, mx), c.idxLe(mx, fmt.Sprintf("(s_cap %s)", xv.S))))
		c.bind(fr, x, x.Type(), fmt.Sprintf("(mk_Slice (s_arr %s) %s %s %s)", xv.S, c.idxAdd(fmt.Sprintf("(s_off %s)", xv.S), lo), c.idxSub(hi, lo), c.idxSub(mx, lo)))
		_ = u
		return true
	case *types.Basic: // string
		lo := getIdx(x.Low, zero)
		hi := getIdx(x.High, fmt.Sprintf("(str_len %s)", xv.S))
		c.rteOblige(fr, st, "slice", x, and(c.idxLe(zero, lo), c.idxLe(lo, hi), c.idxLe(hi, fmt.Sprintf("(str_len %s)", xv.S))))
		idx := c.sorts.idxSort()
		c.declUF("str_sub", []string{"Str", idx, idx}, "Str")
		nv := c.bind(fr, x, x.Type(), fmt.Sprintf("(str_sub %s %s %s)", xv.S, lo, hi))
		c.assume(st.reach, fmt.Sprintf("(= (str_len %s) %s)", nv.S, c.idxSub(hi, lo)))
		c.strSubAxiom()
		return true
	case *types.Pointer: // pointer to array
		arr := u.Elem().Underlying().(*types.Array)
		if xv.P == nil || len(xv.P.Path) > 0 || xv.P.Base == "" || varargArray(x) {
			// slicing a local array: copy-in a fresh backing array (aliasing with the local is lost)
			if !varargArray(x) {
				c.note("slice of local array: backing store copied (aliasing with the array variable not modelled)")
			}
			key := c.arrKeyFor(arr.Elem())
			c.ensureHeapSort(key, arr.Elem())
			ref := c.def(fr.pfx+x.Name()+"_arr", "Int", st.alloc)
			st.alloc = c.def("alloc", "Int", fmt.Sprintf("(+ %s 1)", ref))
			h := c.heapSym(st, key)
			cur := "0"
			if xv.P != nil {
				cur = c.load(st, xv.P).S
			}
			st.heaps[key] = c.def("heap", c.heapSorts[key], fmt.Sprintf("(store %s %s %s)", h, ref, cur))
			lo := getIdx(x.Low, zero)
			n := c.sorts.idxLit(arr.Len())
			hi := getIdx(x.High, n)
			c.rteOblige(fr, st, "slice", x, and(c.idxLe(zero, lo), c.idxLe(lo, hi), c.idxLe(hi, n)))
			c.bind(fr, x, x.Type(), fmt.Sprintf("(mk_Slice %s %s %s %s)", ref, lo, c.idxSub(hi, lo), c.idxSub(n, lo)))
			return true
		}
	}
	c.leave("slice of " + x.X.Type().String())
	fr.vals[x] = c.havocVal(x.Type(), "slice")
	return true
}

func (c *Ctx) strSubAxiom() {
	if c.ufs["ax_str_sub"] {
		return
	}
	c.ufs["ax_str_sub"] = true
	idx := c.sorts.idxSort()
	c.emit(fmt.Sprintf("(assert (forall ((s Str) (a %s) (b %s) (i %s)) (! (=> %s (= (str_at (str_sub s a b) i) (str_at s %s))) :pattern ((str_at (str_sub s a b) i)))))",
		idx, idx, idx, c.inBounds("i", c.idxSub("b", "a")), c.idxAdd("a", "i")))
}

func (c *Ctx) execConvert(fr *Frame, st *State, x *ssa.Convert) bool {
	xv := c.val(fr, st, x.X)
	from, to := x.X.Type(), x.Type()
	// pointer <-> unsafe.Pointer
	_, fromPtr := from.Underlying().(*types.Pointer)
	_, toPtr := to.Underlying().(*types.Pointer)
	isUnsafe := func(t types.Type) bool {
		b, ok := t.Underlying().(*types.Basic)
		return ok && b.Kind() == types.UnsafePointer
	}
	if fromPtr && isUnsafe(to) {
		nv := xv
		nv.T = to
		fr.vals[x] = nv
		return true
	}
	if isUnsafe(from) && toPtr {
		et := to.Underlying().(*types.Pointer).Elem()
		if xv.P != nil {
			np := *xv.P
			if !types.Identical(np.ET, et) {
				if np.Cast == nil {
					np.Cast = np.ET
				}
				np.ET = et
			}
			fr.vals[x] = Val{T: to, S: xv.S, P: &np}
			return true
		}
		c.note("unsafe.Pointer to pointer conversion of unknown origin: havoc")
		fr.vals[x] = c.havocVal(to, "unsafe")
		return true
	}
	if xv.S == "" {
		fr.vals[x] = c.havocVal(to, "conv")
		return true
	}
	if res, ok := c.convert(xv.S, from, to); ok {
		// `conversions lossless`: a narrowing integer conversion must not change the value
		if fr.top && fr.contract != nil && len(fr.contract.byKind("conversions")) > 0 && c.mode == INT {
			fb, _, fi := isIntType(from)
			tb, ts, ti := isIntType(to)
			if fi && ti && tb < fb {
				if _, isConst := x.X.(*ssa.Const); !isConst {
					fr.callSeq["lossless"]++
					o := c.oblige("lossless", fmt.Sprintf("lossless#%d:%s", fr.callSeq["lossless"], to.String()), st.reach, c.sorts.rangePred(xv.S, tb, ts), c.pos(x.Pos()))
					o.Desc = fmt.Sprintf("narrowing conversion %s -> %s keeps the value (no silent truncation)", from, to)
				}
			}
		}
		c.bind(fr, x, to, res)
		return true
	}
	// string <-> []byte and others
	if isStringType(from) {
		if sl, ok := to.Underlying().(*types.Slice); ok {
			// []byte(s): fresh backing array with the string's bytes
			key := c.arrKeyFor(sl.Elem())
			c.ensureHeapSort(key, sl.Elem())
			ref := c.def(fr.pfx+x.Name()+"_arr", "Int", st.alloc)
			st.alloc = c.def("alloc", "Int", fmt.Sprintf("(+ %s 1)", ref))
			// []byte(s) / string(b) copy data the context already holds (same size): not counted
			nv := c.bind(fr, x, to, fmt.Sprintf("(mk_Slice %s %s (str_len %s) (str_len %s))", ref, c.sorts.idxLit(0), xv.S, xv.S))
			if bits, _, ok := isIntType(sl.Elem()); ok && bits == 8 {
				h := c.heapSym(st, key)
				idx := c.sorts.idxSort()
				c.assume(st.reach, fmt.Sprintf("(forall ((i %s)) (! (=> %s (= (select (select %s %s) i) (str_at %s i))) :pattern ((select (select %s %s) i))))",
					idx, c.inBounds("i", "(str_len "+xv.S+")"), h, ref, xv.S, h, ref))
			}
			_ = nv
			c.assume(st.reach, c.idxLe(c.sorts.idxLit(0), "(str_len "+xv.S+")"))
			return true
		}
	}
	if isStringType(to) {
		nv := c.havocVal(to, "tostring")
		if _, ok := from.Underlying().(*types.Slice); ok {
			c.assume(st.reach, fmt.Sprintf("(= (str_len %s) (s_len %s))", nv.S, xv.S))
			c.note("string([]byte): content abstract, length preserved")
		}
		fr.vals[x] = nv
		return true
	}
	c.note(fmt.Sprintf("unsupported conversion %s -> %s: havoc", from, to))
	fr.vals[x] = c.havocVal(to, "conv")
	return true
}

func (c *Ctx) ifaceTest(x string, t types.Type) string {
	if isIfaceType(t) {
		// implements test
		it := t.Underlying().(*types.Interface)
		if it.NumMethods() == 0 {
			return fmt.Sprintf("(not ((_ is if_nil) %s))", x)
		}
		var alts []string
		for _, k := range c.sorts.ifaceOrd {
			con := c.sorts.ifaceCon[k]
			if types.Implements(con.typ, it) {
				alts = append(alts, fmt.Sprintf("((_ is %s) %s)", con.name, x))
			}
		}
		uf := "impl_" + shortTypeName(t)
		c.declUF(uf, []string{"Int"}, "Bool")
		c.note("interface-to-interface assertion on unknown dynamic types: uninterpreted " + uf)
		alts = append(alts, fmt.Sprintf("(and ((_ is if_other) %s) (%s (ifo_tag %s)))", x, uf, x))
		return or(alts...)
	}
	if ct := c.sorts.ifaceCtor(t); ct != nil {
		return fmt.Sprintf("((_ is %s) %s)", ct.name, x)
	}
	return fmt.Sprintf("(and ((_ is if_other) %s) (= (ifo_tag %s) %d))", x, x, c.sorts.otherTagOf(t))
}

func (c *Ctx) ifaceValue(x string, t types.Type) string {
	if isIfaceType(t) {
		return x
	}
	if ct := c.sorts.ifaceCtor(t); ct != nil {
		return fmt.Sprintf("(%s %s)", ct.acc, x)
	}
	uf := "ifo_val_" + shortTypeName(t)
	c.declUF(uf, []string{"Int"}, c.sorts.sortOf(t))
	return fmt.Sprintf("(%s (ifo_id %s))", uf, x)
}

func (c *Ctx) execTypeAssert(fr *Frame, st *State, x *ssa.TypeAssert) bool {
	xv := c.val(fr, st, x.X)
	// register all concrete constructors first so that declaration order is stable
	test := c.ifaceTest(xv.S, x.AssertedType)
	val := c.ifaceValue(xv.S, x.AssertedType)
	if x.CommaOk {
		okn := c.def(fr.pfx+x.Name()+"_ok", "Bool", test)
		vn := c.def(fr.pfx+x.Name()+"_v", c.sorts.sortOf(x.AssertedType), c.ite(okn, val, c.sorts.zero(x.AssertedType)))
		fr.vals[x] = Val{T: x.Type(), Elems: []Val{c.mkVal(x.AssertedType, vn), {T: types.Typ[types.Bool], S: okn}}}
		return true
	}
	c.rteOblige(fr, st, "typeassert", x, test)
	c.bind(fr, x, x.AssertedType, val)
	return true
}

// varargArray: x slices a freshly allocated array whose only other uses are
// element stores that precede the slice (the shape go/ssa gives to the
// implicit []T of a variadic call): copying the contents is then exact.
func varargArray(x *ssa.Slice) bool {
	a, ok := x.X.(*ssa.Alloc)
	if !ok {
		return false
	}
	refs := a.Referrers()
	if refs == nil {
		return false
	}
	for _, r := range *refs {
		switch y := r.(type) {
		case *ssa.Slice:
			if y != x {
				return false
			}
		case *ssa.DebugRef:
		case *ssa.IndexAddr:
			irefs := y.Referrers()
			if irefs == nil {
				return false
			}
			for _, ir := range *irefs {
				st, ok := ir.(*ssa.Store)
				if !ok || st.Addr != y {
					return false
				}
				if st.Block() == x.Block() {
					if indexIn(st.Block(), st) > indexIn(x.Block(), x) {
						return false
					}
				} else if !st.Block().Dominates(x.Block()) {
					return false
				}
			}
		default:
			return false
		}
	}
	return true
}

func elemSize(t types.Type) int64 {
	return types.SizesFor("gc", "amd64").Sizeof(t)
}

// allocOblige: an allocation of n elements of the given size must be covered
// by the memory charged so far in this call (ghost mem) plus the contract's
// constant slack.  Only generated in functions whose contract says `allocs charged`.
func (c *Ctx) allocOblige(fr *Frame, st *State, in ssa.Instruction, n string, esize int64, what string) {
	if !fr.top {
		return
	}
	slack, ok := allocSlack(fr.contract)
	if !ok {
		return
	}
	g, have := st.ghost["mem"]
	if !have {
		return
	}
	cnt := n
	if c.mode == BV {
		cnt = fmt.Sprintf("(bv2nat %s)", n)
	}
	fr.callSeq["alloc"]++
	o := c.oblige("alloc", fmt.Sprintf("alloc.charged#%d:%s", fr.callSeq["alloc"], what), st.reach,
		fmt.Sprintf("(>= (+ %s %d) (* %d %s))", g, slack, esize, cnt), c.pos(in.Pos()))
	o.Desc = fmt.Sprintf("%s of a program-chosen size is covered by the memory charged before it (+%d bytes slack)", what, slack)
}

// assumeTypeInv: declared type invariants (`typeinv T: P(self)`) are assumed
// for the object a field is read from (listed as assumptions in the evidence).
func (c *Ctx) assumeTypeInv(st *State, p *Ptr) {
	if p == nil || p.Base == "" || !strings.HasPrefix(p.Key, "H:") || len(p.Path) == 0 || p.Path[0].IsIndex {
		return
	}
	n, ok := p.Path[0].ST.(*types.Named)
	if !ok || n.Obj().Pkg() == nil {
		return
	}
	ti := lookupTypeInv(n.Obj().Pkg().Path() + "." + n.Obj().Name())
	if ti == nil {
		return
	}
	key := "typeinv|" + p.Base + "|" + c.heapSym(st, p.Key) + "|" + st.reach // (assumed under the path condition: once per path)
	if c.instDone[key] {
		return
	}
	c.instDone[key] = true
	self := c.mkVal(types.NewPointer(n), p.Base)
	env := &SpecEnv{c: c, vars: map[string]Val{"self": self}, cur: st, old: st, pkg: n.Obj().Pkg()}
	env.soft = true
	g := c.specBool(env, ti.Expr)
	if len(env.errs) > 0 {
		return
	}
	c.trusted["type invariant assumed: "+n.Obj().Name()+": "+ti.Text] = true
	c.assume(st.reach, fmt.Sprintf("(=> (not (= %s 0)) %s)", p.Base, g))
}

// privateAlloc: the allocated object is only ever accessed through field /
// element addresses and loads in this function, or returned - it is never
// stored anywhere, passed to a call, captured or converted, so no other code
// can reach it before the function returns.
func privateAlloc(a *ssa.Alloc) bool {
	seen := map[ssa.Value]bool{}
	var ok func(v ssa.Value, isAddr bool) bool
	ok = func(v ssa.Value, isAddr bool) bool {
		if seen[v] {
			return true
		}
		seen[v] = true
		refs := v.Referrers()
		if refs == nil {
			return false
		}
		for _, r := range *refs {
			switch x := r.(type) {
			case *ssa.DebugRef, *ssa.Return:
			case *ssa.FieldAddr:
				if !ok(x, true) {
					return false
				}
			case *ssa.IndexAddr:
				if !ok(x, true) {
					return false
				}
			case *ssa.Store:
				if x.Val == v {
					return false // the reference itself is stored somewhere
				}
			case *ssa.UnOp:
				if x.Op != token.MUL {
					return false
				}
				// loading a value out of the object is fine (the loaded value is not the object)
			case *ssa.Phi:
				if !ok(x, isAddr) {
					return false
				}
			case *ssa.BinOp:
				// comparisons with nil
			case *ssa.MakeClosure:
				// captured by a closure that is only deferred or called on the spot, and whose
				// body uses the captured variable only through loads, stores and field addresses
				fn, isFn := x.Fn.(*ssa.Function)
				if !isFn || x.Referrers() == nil {
					return false
				}
				for _, cr := range *x.Referrers() {
					switch y := cr.(type) {
					case *ssa.Defer:
						if y.Call.Value != x {
							return false
						}
					case *ssa.Call:
						if y.Call.Value != x {
							return false
						}
					case *ssa.DebugRef:
					default:
						return false
					}
				}
				for i, bv := range x.Bindings {
					if bv == v && i < len(fn.FreeVars) {
						if !ok(fn.FreeVars[i], true) {
							return false
						}
					}
				}
			default:
				return false
			}
		}
		return true
	}
	return ok(a, false)
}

// privateUntilCaptured: the variable is only read and written directly by this
// function, except that closures capture it; returns the capturing instructions.
func privateUntilCaptured(a *ssa.Alloc) ([]ssa.Instruction, bool) {
	refs := a.Referrers()
	if refs == nil {
		return nil, false
	}
	var until []ssa.Instruction
	captured := false
	for _, r := range *refs {
		switch x := r.(type) {
		case *ssa.DebugRef:
		case *ssa.Store:
			if x.Val == a {
				return nil, false
			}
		case *ssa.UnOp:
			if x.Op != token.MUL {
				return nil, false
			}
		case *ssa.MakeClosure:
			// a closure that only reads the variable cannot change it, whoever calls it
			readOnly := false
			if fn, ok := x.Fn.(*ssa.Function); ok {
				readOnly = true
				for i, bv := range x.Bindings {
					if bv != a || i >= len(fn.FreeVars) {
						continue
					}
					if rr := fn.FreeVars[i].Referrers(); rr != nil {
						for _, u := range *rr {
							switch y := u.(type) {
							case *ssa.DebugRef:
							case *ssa.UnOp:
								if y.Op != token.MUL {
									readOnly = false
								}
							default:
								readOnly = false
							}
						}
					}
				}
			}
			if !readOnly {
				until = append(until, x)
			}
			captured = true
		default:
			return nil, false
		}
	}
	return until, captured
}

// mayHaveRun: instruction u may have been executed before control reaches cur.
func mayHaveRun(u, cur ssa.Instruction) bool {
	if u == nil || cur == nil || u.Parent() != cur.Parent() {
		return true
	}
	ub, cb := u.Block(), cur.Block()
	reach := func(from, to *ssa.BasicBlock, strict bool) bool {
		seen := map[*ssa.BasicBlock]bool{}
		var stack []*ssa.BasicBlock
		if strict {
			stack = append(stack, from.Succs...)
		} else {
			stack = []*ssa.BasicBlock{from}
		}
		for len(stack) > 0 {
			b := stack[len(stack)-1]
			stack = stack[:len(stack)-1]
			if seen[b] {
				continue
			}
			seen[b] = true
			if b == to {
				return true
			}
			stack = append(stack, b.Succs...)
		}
		return false
	}
	if ub == cb {
		iu, ic := -1, -1
		for i, in := range ub.Instrs {
			if in == u {
				iu = i
			}
			if in == cur {
				ic = i
			}
		}
		if iu < 0 || ic < 0 || iu < ic {
			return true
		}
		return reach(ub, ub, true) // the block is in a cycle: an earlier iteration ran u
	}
	return reach(ub, cb, true)
}

// outsideLoop: v is defined outside the loop (a parameter, or an instruction of a block not in the loop body).
func outsideLoop(li *loopInfo, v ssa.Value) bool {
	switch x := v.(type) {
	case *ssa.Parameter, *ssa.Const, *ssa.FreeVar:
		return true
	case ssa.Instruction:
		return !li.body[x.Block()]
	}
	return false
}
