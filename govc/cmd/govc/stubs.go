package main

func fragOverlay(repo string, all []*Contract, pkgs []string) map[string][]byte { return nil }

func runSelftest(repo, verif, prop, tier string) int { return 0 }
