package main

func fragOverlay(repo string, all []*Contract, pkgs []string) map[string][]byte {
	return fragOverlayWith(repo, all, pkgs, nil)
}

func fragOverlayWith(repo string, all []*Contract, pkgs []string, base map[string][]byte) map[string][]byte {
	return base
}
