package main

// Mechanical fragment extraction (DESIGN §4.8): a region of a large function
// (a case body / if branch of the interpreter loop) is copied byte for byte
// into a generated function whose parameters are the region's free variables.
// The only rewrites are of exits: `return a, b` becomes `return false, a, b`
// and a `continue`/`break` to a label outside the region, or falling off the
// end, becomes `return true, <zero results>`.  The generated file is handed to
// the loader through packages.Config.Overlay on every run; it is never
// written to /repo.

import (
	"bytes"
	"fmt"
	"go/ast"
	"go/printer"
	"go/token"
	"go/types"
	"os"
	"path/filepath"
	"sort"
	"strings"

	"golang.org/x/tools/go/packages"
)

type fragInfo struct {
	Name    string
	File    string
	From    int
	To      int
	Params  []string
	Rewrite int
	Err     string
}

var fragReport = map[string]*fragInfo{}

func fragOverlay(repo string, all []*Contract, pkgs []string) map[string][]byte {
	return fragOverlayWith(repo, all, pkgs, nil)
}

func nodeText(fset *token.FileSet, n ast.Node) string {
	var b bytes.Buffer
	printer.Fprint(&b, fset, n)
	return strings.Join(strings.Fields(b.String()), " ")
}

// selectRegion resolves a selector like
//   switch opcode.TypePfx()/case code.Type7Pfx/if opcode.GetF()/then
// inside fd and returns the selected statement list.
func selectRegion(fset *token.FileSet, fd *ast.FuncDecl, sel string) ([]ast.Stmt, error) {
	var cur ast.Node = fd.Body
	parts := strings.Split(sel, "/")
	for pi, part := range parts {
		part = strings.TrimSpace(part)
		kind, arg := part, ""
		if i := strings.Index(part, " "); i > 0 {
			kind, arg = part[:i], strings.Join(strings.Fields(part[i+1:]), " ")
		}
		var found ast.Node
		if strings.HasPrefix(kind, "if#") && arg == "" {
			// N-th if statement among the direct statements of the current block
			n := 0
			fmt.Sscanf(kind[3:], "%d", &n)
			var list []ast.Stmt
			switch x := cur.(type) {
			case *ast.BlockStmt:
				list = x.List
			case *ast.CaseClause:
				list = x.Body
			case *ast.ForStmt:
				list = x.Body.List
			}
			k := 0
			for _, st := range list {
				if is, ok := st.(*ast.IfStmt); ok {
					k++
					if k == n {
						found = is
					}
				}
			}
			if found == nil {
				return nil, fmt.Errorf("selector element %q not found", part)
			}
			cur = found
			continue
		}
		if strings.HasPrefix(kind, "for#") && arg == "" {
			// N-th for statement in source order (nested ones included, function literals excluded)
			n := 0
			fmt.Sscanf(kind[4:], "%d", &n)
			k := 0
			ast.Inspect(cur, func(nd ast.Node) bool {
				if found != nil {
					return false
				}
				if _, isLit := nd.(*ast.FuncLit); isLit {
					return false
				}
				if fs, ok := nd.(*ast.ForStmt); ok {
					k++
					if k == n {
						found = fs
						return false
					}
				}
				return true
			})
			if found == nil {
				return nil, fmt.Errorf("selector element %q not found", part)
			}
			cur = found
			continue
		}
		if strings.HasPrefix(kind, "switch#") {
			// N-th switch statement (in source order, nested ones included) with that tag
			n := 0
			fmt.Sscanf(kind[7:], "%d", &n)
			k := 0
			ast.Inspect(cur, func(nd ast.Node) bool {
				if found != nil {
					return false
				}
				if sw, ok := nd.(*ast.SwitchStmt); ok && sw.Tag != nil && nodeText(fset, sw.Tag) == arg {
					k++
					if k == n {
						found = sw
						return false
					}
				}
				return true
			})
			if found == nil {
				return nil, fmt.Errorf("selector element %q not found", part)
			}
			cur = found
			continue
		}
		switch kind {
		case "switch":
			ast.Inspect(cur, func(n ast.Node) bool {
				if found != nil {
					return false
				}
				if sw, ok := n.(*ast.SwitchStmt); ok && sw.Tag != nil && nodeText(fset, sw.Tag) == arg {
					found = sw
					return false
				}
				return true
			})
		case "case":
			sw, ok := cur.(*ast.SwitchStmt)
			if !ok {
				return nil, fmt.Errorf("selector element %d: case outside switch", pi)
			}
			for _, st := range sw.Body.List {
				cc := st.(*ast.CaseClause)
				for _, e := range cc.List {
					if nodeText(fset, e) == arg {
						found = cc
					}
				}
				if arg == "default" && cc.List == nil {
					found = cc
				}
			}
		case "if":
			ast.Inspect(cur, func(n ast.Node) bool {
				if found != nil {
					return false
				}
				if is, ok := n.(*ast.IfStmt); ok && nodeText(fset, is.Cond) == arg {
					found = is
					return false
				}
				return true
			})
		case "then":
			if is, ok := cur.(*ast.IfStmt); ok {
				found = is.Body
			}
		case "else":
			if is, ok := cur.(*ast.IfStmt); ok && is.Else != nil {
				found = is.Else
			}
		case "for":
			ast.Inspect(cur, func(n ast.Node) bool {
				if found != nil {
					return false
				}
				if ls, ok := n.(*ast.LabeledStmt); ok && ls.Label.Name == arg {
					found = ls.Stmt
					return false
				}
				return true
			})
		default:
			return nil, fmt.Errorf("unknown selector element %q", part)
		}
		if found == nil {
			return nil, fmt.Errorf("selector element %q not found", part)
		}
		cur = found
	}
	switch x := cur.(type) {
	case *ast.BlockStmt:
		return x.List, nil
	case *ast.CaseClause:
		return x.Body, nil
	case *ast.ForStmt:
		return x.Body.List, nil
	}
	return nil, fmt.Errorf("selector does not end at a block")
}

func findFuncDecl(pkg *packages.Package, key string) (*ast.FuncDecl, *ast.File) {
	recv, name := "", key
	if strings.HasPrefix(key, "(") {
		i := strings.Index(key, ")")
		recv, name = key[1:i], key[i+2:]
	}
	for _, f := range pkg.Syntax {
		for _, d := range f.Decls {
			fd, ok := d.(*ast.FuncDecl)
			if !ok || fd.Name.Name != name || fd.Body == nil {
				continue
			}
			if recv == "" && fd.Recv == nil {
				return fd, f
			}
			if recv != "" && fd.Recv != nil && len(fd.Recv.List) == 1 {
				if nodeText(pkg.Fset, fd.Recv.List[0].Type) == recv {
					return fd, f
				}
			}
		}
	}
	return nil, nil
}

func fragOverlayWith(repo string, all []*Contract, pkgs []string, base map[string][]byte) map[string][]byte {
	byPkg := map[string][]*Contract{}
	for _, ct := range all {
		if !ct.IsFrag {
			continue
		}
		want := len(pkgs) == 0
		for _, p := range pkgs {
			if p == ct.PkgPath || strings.HasSuffix(p, "/...") {
				want = true
			}
		}
		if want {
			byPkg[ct.PkgPath] = append(byPkg[ct.PkgPath], ct)
		}
	}
	if len(byPkg) == 0 {
		return base
	}
	out := map[string][]byte{}
	for k, v := range base {
		out[k] = v
	}
	var paths []string
	for p := range byPkg {
		paths = append(paths, p)
	}
	sort.Strings(paths)
	cfg := &packages.Config{Mode: packages.LoadAllSyntax, Dir: repo, BuildFlags: []string{"-tags=verif"}, Overlay: base,
		Env: append(os.Environ(), "GOFLAGS=-mod=mod", "GOPROXY=off", "GOSUMDB=off", "GOTOOLCHAIN=local")}
	loaded, err := packages.Load(cfg, paths...)
	if err != nil {
		for _, cts := range byPkg {
			for _, ct := range cts {
				fragReport[ct.PkgPath+"."+ct.Key] = &fragInfo{Name: ct.Key, Err: err.Error()}
			}
		}
		return out
	}
	for _, pkg := range loaded {
		cts := byPkg[pkg.PkgPath]
		if len(cts) == 0 || len(pkg.Errors) > 0 {
			for _, ct := range cts {
				fragReport[ct.PkgPath+"."+ct.Key] = &fragInfo{Name: ct.Key, Err: fmt.Sprint(pkg.Errors)}
			}
			continue
		}
		var funcs []string
		imports := map[string]string{} // path -> local name
		for _, ct := range cts {
			fi := &fragInfo{Name: ct.Key}
			fragReport[ct.PkgPath+"."+ct.Key] = fi
			src, imps, err := extractFragment(pkg, ct, fi, out)
			if err != nil {
				fi.Err = err.Error()
				continue
			}
			funcs = append(funcs, src)
			for k, v := range imps {
				imports[k] = v
			}
		}
		if len(funcs) == 0 {
			continue
		}
		var b strings.Builder
		b.WriteString("//go:build verif\n// +build verif\n\n// Code generated by govc (fragment extraction); never written to the repository.\n\npackage " + pkg.Name + "\n\n")
		var ips []string
		for p := range imports {
			ips = append(ips, p)
		}
		sort.Strings(ips)
		if len(ips) > 0 {
			b.WriteString("import (\n")
			for _, p := range ips {
				fmt.Fprintf(&b, "\t%s %q\n", imports[p], p)
			}
			b.WriteString(")\n\n")
		}
		b.WriteString(strings.Join(funcs, "\n"))
		dir := filepath.Dir(pkg.GoFiles[0])
		out[filepath.Join(dir, "zz_verif_fragments.go")] = []byte(b.String())
	}
	return out
}

func extractFragment(pkg *packages.Package, ct *Contract, fi *fragInfo, overlay map[string][]byte) (string, map[string]string, error) {
	fd, file := findFuncDecl(pkg, ct.FragOf)
	if fd == nil {
		return "", nil, fmt.Errorf("enclosing function %s not found", ct.FragOf)
	}
	fset := pkg.Fset
	stmts, err := selectRegion(fset, fd, ct.FragSel)
	if err != nil {
		return "", nil, err
	}
	if len(stmts) == 0 {
		return "", nil, fmt.Errorf("selected region is empty")
	}
	from, to := stmts[0].Pos(), stmts[len(stmts)-1].End()
	fname := fset.Position(from).Filename
	var srcBytes []byte
	if ob, ok := overlay[fname]; ok {
		srcBytes = ob
	} else {
		srcBytes, err = os.ReadFile(fname)
		if err != nil {
			return "", nil, err
		}
	}
	fi.File, fi.From, fi.To = fname, fset.Position(from).Line, fset.Position(to).Line
	info := pkg.TypesInfo
	// local import names of the file
	localName := map[string]string{}
	for _, is := range file.Imports {
		p := strings.Trim(is.Path.Value, "\"")
		if is.Name != nil {
			localName[p] = is.Name.Name
		}
	}
	usedImports := map[string]string{}
	qual := func(p *types.Package) string {
		if p == pkg.Types {
			return ""
		}
		n := p.Name()
		if ln, ok := localName[p.Path()]; ok {
			n = ln
		}
		usedImports[p.Path()] = n
		return n
	}
	// free variables
	type fv struct {
		obj   *types.Var
		first token.Pos
	}
	frees := map[*types.Var]*fv{}
	var assignedFree []string
	inRegion := func(p token.Pos) bool { return p >= from && p < to }
	for _, st := range stmts {
		ast.Inspect(st, func(n ast.Node) bool {
			switch x := n.(type) {
			case *ast.Ident:
				obj := info.Uses[x]
				if pn, ok := obj.(*types.PkgName); ok {
					usedImports[pn.Imported().Path()] = pn.Name()
				}
				v, ok := obj.(*types.Var)
				if !ok || v.IsField() {
					return true
				}
				if v.Pos() >= fd.Pos() && v.Pos() < fd.End() && !inRegion(v.Pos()) {
					if _, ok := frees[v]; !ok {
						frees[v] = &fv{v, x.Pos()}
					}
				}
			case *ast.AssignStmt:
				for _, l := range x.Lhs {
					if id, ok := l.(*ast.Ident); ok {
						if v, ok := info.Uses[id].(*types.Var); ok && !v.IsField() && v.Pos() >= fd.Pos() && v.Pos() < fd.End() && !inRegion(v.Pos()) {
							assignedFree = append(assignedFree, id.Name)
						}
					}
				}
			case *ast.IncDecStmt:
				if id, ok := x.X.(*ast.Ident); ok {
					if v, ok := info.Uses[id].(*types.Var); ok && !v.IsField() && v.Pos() >= fd.Pos() && v.Pos() < fd.End() && !inRegion(v.Pos()) {
						assignedFree = append(assignedFree, id.Name)
					}
				}
			case *ast.UnaryExpr:
				if x.Op == token.AND {
					if id, ok := x.X.(*ast.Ident); ok {
						if v, ok := info.Uses[id].(*types.Var); ok && !v.IsField() && v.Pos() >= fd.Pos() && v.Pos() < fd.End() && !inRegion(v.Pos()) {
							assignedFree = append(assignedFree, id.Name)
						}
					}
				}
			}
			return true
		})
	}
	// variables of the enclosing function that the contract names are parameters of
	// the fragment even where the region (no longer) mentions them, and fragOut_x is
	// a result even where the region (no longer) assigns x: the contract then says
	// the same thing about a region that was changed to leave them alone
	if sc := pkg.Types.Scope().Innermost(from); sc != nil {
		seenName := map[string]bool{}
		consider := func(e ast.Expr) {
			if e == nil {
				return
			}
			ast.Inspect(e, func(n ast.Node) bool {
				id, ok := n.(*ast.Ident)
				if !ok {
					return true
				}
				name := id.Name
				out := false
				if strings.HasPrefix(name, "fragOut_") {
					name, out = name[len("fragOut_"):], true
				}
				if seenName[id.Name] {
					return true
				}
				seenName[id.Name] = true
				_, obj := sc.LookupParent(name, from)
				v, ok := obj.(*types.Var)
				if !ok || v.IsField() || !(v.Pos() >= fd.Pos() && v.Pos() < fd.End()) || inRegion(v.Pos()) {
					return true
				}
				if _, ok := frees[v]; !ok {
					frees[v] = &fv{v, from}
				}
				if out {
					assignedFree = append(assignedFree, name)
				}
				return true
			})
		}
		for _, cl := range ct.Clauses {
			switch cl.Kind {
			case "requires", "ensures", "exits_ensures", "assert_before_call", "assert_after_call":
				consider(cl.Expr)
				consider(cl.When)
			}
		}
	}
	var fl []*fv
	for _, f := range frees {
		fl = append(fl, f)
	}
	sort.Slice(fl, func(i, j int) bool { return fl[i].obj.Pos() < fl[j].obj.Pos() })
	// free variables assigned in the region are passed by pointer-free copy:
	// their final value is returned to the contract as extra results.
	assigned := map[string]bool{}
	for _, a := range assignedFree {
		assigned[a] = true
	}
	var params, outNames, outTypes []string
	for _, f := range fl {
		params = append(params, fmt.Sprintf("%s %s", f.obj.Name(), types.TypeString(f.obj.Type(), qual)))
		fi.Params = append(fi.Params, f.obj.Name())
		if assigned[f.obj.Name()] {
			outNames = append(outNames, f.obj.Name())
			outTypes = append(outTypes, types.TypeString(f.obj.Type(), qual))
		}
	}
	// result types of the enclosing function
	var resTypes []string
	if fd.Type.Results != nil {
		for _, r := range fd.Type.Results.List {
			t := types.TypeString(info.TypeOf(r.Type), qual)
			n := len(r.Names)
			if n == 0 {
				n = 1
			}
			for i := 0; i < n; i++ {
				resTypes = append(resTypes, t)
			}
		}
	}
	zeroRes := ""
	for _, t := range resTypes {
		zeroRes += ", *new(" + t + ")"
	}
	outs := ""
	for _, n := range outNames {
		outs += ", " + n
	}
	// exit rewrites (byte edits, applied back to front)
	var edits []editT
	off := func(p token.Pos) int { return fset.Position(p).Offset }
	labelsInside := map[string]bool{}
	for _, st := range stmts {
		ast.Inspect(st, func(n ast.Node) bool {
			if ls, ok := n.(*ast.LabeledStmt); ok {
				labelsInside[ls.Label.Name] = true
			}
			return true
		})
	}
	var walk func(n ast.Node, loopDepth int, inFuncLit bool)
	walk = func(n ast.Node, loopDepth int, inFuncLit bool) {
		ast.Inspect(n, func(m ast.Node) bool {
			if m == nil || m == n {
				return true
			}
			switch x := m.(type) {
			case *ast.FuncLit:
				return false // returns inside closures are their own
			case *ast.ForStmt:
				walk(x.Body, loopDepth+1, inFuncLit)
				return false
			case *ast.RangeStmt:
				walk(x.Body, loopDepth+1, inFuncLit)
				return false
			case *ast.SwitchStmt, *ast.TypeSwitchStmt, *ast.SelectStmt:
				// a bare break inside a switch leaves the switch: keep
				var body *ast.BlockStmt
				switch y := x.(type) {
				case *ast.SwitchStmt:
					body = y.Body
				case *ast.TypeSwitchStmt:
					body = y.Body
				case *ast.SelectStmt:
					body = y.Body
				}
				walkSwitch(body, loopDepth, &edits, off, labelsInside, zeroRes, outs, walk)
				return false
			case *ast.ReturnStmt:
				if len(x.Results) == 0 {
					edits = append(edits, editT{off(x.Pos()), off(x.End()), "return false" + zeroRes + outs})
				} else {
					edits = append(edits, editT{off(x.Pos()), off(x.Pos()) + len("return"), "return false,"})
					if outs != "" {
						edits = append(edits, editT{off(x.End()), off(x.End()), outs})
					}
				}
			case *ast.BranchStmt:
				if x.Tok == token.GOTO || x.Tok == token.FALLTHROUGH {
					return true
				}
				if x.Label != nil && !labelsInside[x.Label.Name] {
					edits = append(edits, editT{off(x.Pos()), off(x.End()), "return true" + zeroRes + outs})
				} else if x.Label == nil && loopDepth == 0 {
					edits = append(edits, editT{off(x.Pos()), off(x.End()), "return true" + zeroRes + outs})
				}
			}
			return true
		})
	}
	for _, st := range stmts {
		// wrap so that the statement itself is inspected
		walk(&ast.BlockStmt{List: []ast.Stmt{st}}, 0, false)
	}
	sort.Slice(edits, func(i, j int) bool { return edits[i].from > edits[j].from })
	body := append([]byte(nil), srcBytes[off(from):off(to)]...)
	base := off(from)
	for _, e := range edits {
		if e.from < base || e.to > off(to) {
			continue
		}
		nb := append([]byte(nil), body[:e.from-base]...)
		nb = append(nb, []byte(e.text)...)
		nb = append(nb, body[e.to-base:]...)
		body = nb
	}
	fi.Rewrite = len(edits)
	var b strings.Builder
	resDecl := "fragNext bool"
	for i, t := range resTypes {
		resDecl += fmt.Sprintf(", fragRes%d %s", i, t)
	}
	for i, t := range outTypes {
		resDecl += fmt.Sprintf(", fragOut_%s %s", outNames[i], t)
	}
	fmt.Fprintf(&b, "// fragment %s of %s at %s (%s:%d-%d)\n", ct.Key, ct.FragOf, ct.FragSel, filepath.Base(fname), fi.From, fi.To)
	fmt.Fprintf(&b, "func %s(%s) (%s) {\n", fragFuncName(ct.Key), strings.Join(params, ", "), resDecl)
	b.WriteString("\t{ // region copied verbatim\n")
	b.Write(body)
	fmt.Fprintf(&b, "\n\t}\n\treturn true%s%s\n}\n", zeroRes, outs)
	return b.String(), usedImports, nil
}

type editT = struct {
	from, to int
	text     string
}

func walkSwitch(body *ast.BlockStmt, loopDepth int, edits *[]editT, off func(token.Pos) int, labelsInside map[string]bool, zeroRes, outs string, walk func(ast.Node, int, bool)) {
	// inside a switch a bare `break` leaves the switch (kept), but `continue`
	// still refers to the enclosing loop
	ast.Inspect(body, func(m ast.Node) bool {
		switch x := m.(type) {
		case *ast.FuncLit:
			return false
		case *ast.ForStmt:
			walk(x.Body, loopDepth+1, false)
			return false
		case *ast.RangeStmt:
			walk(x.Body, loopDepth+1, false)
			return false
		case *ast.ReturnStmt:
			if len(x.Results) == 0 {
				*edits = append(*edits, editT{off(x.Pos()), off(x.End()), "return false" + zeroRes + outs})
			} else {
				*edits = append(*edits, editT{off(x.Pos()), off(x.Pos()) + len("return"), "return false,"})
				if outs != "" {
					*edits = append(*edits, editT{off(x.End()), off(x.End()), outs})
				}
			}
		case *ast.BranchStmt:
			if x.Label != nil && !labelsInside[x.Label.Name] && (x.Tok == token.CONTINUE || x.Tok == token.BREAK) {
				*edits = append(*edits, editT{off(x.Pos()), off(x.End()), "return true" + zeroRes + outs})
			} else if x.Label == nil && x.Tok == token.CONTINUE && loopDepth == 0 {
				*edits = append(*edits, editT{off(x.Pos()), off(x.End()), "return true" + zeroRes + outs})
			}
		}
		return true
	})
}
