package main

// Type -> SMT sort mapping, zero values, constants.  Two integer encodings
// (DESIGN §4.2): BV (bit vectors + FloatingPoint) and INT (SMT Int with
// explicit wrap at every arithmetic result).

import (
	"fmt"
	"go/constant"
	"go/types"
	"math"
	"math/big"
	"sort"
	"strings"
)

type Mode int

const (
	BV Mode = iota
	INT
)

func (m Mode) String() string {
	if m == BV {
		return "bv"
	}
	return "int"
}

// Sorts holds the datatype declarations needed by one verification context.
type Sorts struct {
	mode     Mode
	decls    []string          // in dependency order
	structs  map[string]string // types.Type string -> sort name
	sinfo    map[string]*structInfo
	ifaceCon map[string]*ifaceCon // concrete type string -> constructor
	ifaceOrd []string
	strLits  map[string]string // literal -> symbol
	strOrd   []string
	otherTag map[string]int
}

type structInfo struct {
	sort   string
	ctor   string
	fields []string // accessor names
	ftypes []types.Type
	fnames []string
	st     *types.Struct
}

type ifaceCon struct {
	name string // constructor name
	acc  string // accessor
	sort string
	typ  types.Type
}

func newSorts(m Mode) *Sorts {
	return &Sorts{mode: m, structs: map[string]string{}, sinfo: map[string]*structInfo{},
		ifaceCon: map[string]*ifaceCon{}, strLits: map[string]string{}, otherTag: map[string]int{}}
}

func sanitize(s string) string {
	var b strings.Builder
	for _, r := range s {
		switch {
		case r >= 'a' && r <= 'z', r >= 'A' && r <= 'Z', r >= '0' && r <= '9', r == '_':
			b.WriteRune(r)
		case r == '*':
			b.WriteString("P")
		case r == '.' || r == '/':
			b.WriteString("_")
		case r == '[':
			b.WriteString("L")
		case r == ']':
			b.WriteString("R")
		default:
			b.WriteString("_")
		}
	}
	return b.String()
}

func shortTypeName(t types.Type) string {
	s := types.TypeString(t, func(p *types.Package) string { return p.Name() })
	return sanitize(s)
}

func intBits(b *types.Basic) (bits int, signed bool, ok bool) {
	switch b.Kind() {
	case types.Int8:
		return 8, true, true
	case types.Int16:
		return 16, true, true
	case types.Int32:
		return 32, true, true
	case types.Int64, types.Int:
		return 64, true, true
	case types.Uint8:
		return 8, false, true
	case types.Uint16:
		return 16, false, true
	case types.Uint32:
		return 32, false, true
	case types.Uint64, types.Uint, types.Uintptr:
		return 64, false, true
	case types.UntypedInt, types.UntypedRune:
		return 64, true, true
	}
	return 0, false, false
}

func isIntType(t types.Type) (bits int, signed bool, ok bool) {
	if t == nil {
		return 0, false, false
	}
	if b, isb := t.Underlying().(*types.Basic); isb {
		return intBits(b)
	}
	return 0, false, false
}

func isFloatType(t types.Type) bool {
	if t == nil {
		return false
	}
	if b, ok := t.Underlying().(*types.Basic); ok {
		return b.Kind() == types.Float64 || b.Kind() == types.Float32 || b.Kind() == types.UntypedFloat
	}
	return false
}

func isBoolType(t types.Type) bool {
	if t == nil {
		return false
	}
	if b, ok := t.Underlying().(*types.Basic); ok {
		return b.Kind() == types.Bool || b.Kind() == types.UntypedBool
	}
	return false
}

func isStringType(t types.Type) bool {
	if t == nil {
		return false
	}
	if b, ok := t.Underlying().(*types.Basic); ok {
		return b.Kind() == types.String || b.Kind() == types.UntypedString
	}
	return false
}

func isIfaceType(t types.Type) bool {
	if t == nil {
		return false
	}
	_, ok := t.Underlying().(*types.Interface)
	return ok
}

func (s *Sorts) idxSort() string {
	if s.mode == BV {
		return "(_ BitVec 64)"
	}
	return "Int"
}

func (s *Sorts) intSort(bits int) string {
	if s.mode == BV {
		return fmt.Sprintf("(_ BitVec %d)", bits)
	}
	return "Int"
}

// intLit renders integer v (already reduced to the type's range) as a literal.
func (s *Sorts) intLit(v *big.Int, bits int) string {
	if s.mode == BV {
		m := new(big.Int).Lsh(big.NewInt(1), uint(bits))
		x := new(big.Int).Mod(v, m)
		if bits%4 == 0 {
			return fmt.Sprintf("#x%0*s", bits/4, x.Text(16))
		}
		return fmt.Sprintf("#b%0*s", bits, x.Text(2))
	}
	if v.Sign() < 0 {
		return "(- " + new(big.Int).Neg(v).String() + ")"
	}
	return v.String()
}

func (s *Sorts) idxLit(n int64) string { return s.intLit(big.NewInt(n), 64) }

func (s *Sorts) sortOf(t types.Type) string {
	switch u := t.Underlying().(type) {
	case *types.Basic:
		if bits, _, ok := intBits(u); ok {
			return s.intSort(bits)
		}
		switch u.Kind() {
		case types.Bool, types.UntypedBool:
			return "Bool"
		case types.Float64, types.UntypedFloat:
			return "Float64"
		case types.Float32:
			return "Float32"
		case types.String, types.UntypedString:
			return "Str"
		case types.UnsafePointer, types.UntypedNil:
			return "Int"
		}
		return "Int"
	case *types.Pointer, *types.Chan, *types.Map, *types.Signature:
		return "Int"
	case *types.Interface:
		return "Iface"
	case *types.Slice:
		return "Slice"
	case *types.Array:
		return "(Array " + s.idxSort() + " " + s.sortOf(u.Elem()) + ")"
	case *types.Struct:
		return s.structSort(t, u)
	case *types.Tuple:
		return "TUPLE"
	}
	return "Int"
}

func (s *Sorts) structSort(t types.Type, st *types.Struct) string {
	key := t.String()
	if n, ok := s.structs[key]; ok {
		return n
	}
	name := "T_" + shortTypeName(t)
	if _, isNamed := t.(*types.Named); !isNamed {
		name = fmt.Sprintf("T_anon%d", len(s.structs))
	}
	for _, v := range s.structs {
		if v == name {
			name = fmt.Sprintf("%s_%d", name, len(s.structs))
		}
	}
	s.structs[key] = name
	info := &structInfo{sort: name, ctor: "mk_" + name, st: st}
	var fl []string
	for i := 0; i < st.NumFields(); i++ {
		f := st.Field(i)
		acc := fmt.Sprintf("%s_%s", name, sanitize(f.Name()))
		if f.Name() == "_" {
			acc = fmt.Sprintf("%s_blank%d", name, i)
		}
		info.fields = append(info.fields, acc)
		info.ftypes = append(info.ftypes, f.Type())
		info.fnames = append(info.fnames, f.Name())
		fl = append(fl, fmt.Sprintf("(%s %s)", acc, s.sortOf(f.Type())))
	}
	s.sinfo[name] = info
	if len(fl) == 0 {
		s.decls = append(s.decls, fmt.Sprintf("(declare-datatype %s ((%s)))", name, info.ctor))
	} else {
		s.decls = append(s.decls, fmt.Sprintf("(declare-datatype %s ((%s %s)))", name, info.ctor, strings.Join(fl, " ")))
	}
	return name
}

func (s *Sorts) info(t types.Type) *structInfo {
	st, ok := t.Underlying().(*types.Struct)
	if !ok {
		return nil
	}
	return s.sinfo[s.structSort(t, st)]
}

// containsIface: does a value of type t (by value) embed an interface value?
func containsIface(t types.Type, depth int) bool {
	if depth > 8 {
		return true
	}
	switch u := t.Underlying().(type) {
	case *types.Interface:
		return true
	case *types.Struct:
		for i := 0; i < u.NumFields(); i++ {
			if containsIface(u.Field(i).Type(), depth+1) {
				return true
			}
		}
	case *types.Array:
		return containsIface(u.Elem(), depth+1)
	}
	return false
}

// ifaceCtor returns the Iface constructor for concrete dynamic type t, or nil
// if values of that type are represented by if_other.
func (s *Sorts) ifaceCtor(t types.Type) *ifaceCon {
	if isIfaceType(t) {
		return nil
	}
	key := t.String()
	if c, ok := s.ifaceCon[key]; ok {
		return c
	}
	if containsIface(t, 0) {
		return nil
	}
	n := shortTypeName(t)
	c := &ifaceCon{name: "if_" + n, acc: "ifv_" + n, sort: s.sortOf(t), typ: t}
	s.ifaceCon[key] = c
	s.ifaceOrd = append(s.ifaceOrd, key)
	return c
}

func (s *Sorts) otherTagOf(t types.Type) int {
	key := t.String()
	if n, ok := s.otherTag[key]; ok {
		return n
	}
	n := len(s.otherTag) + 1
	s.otherTag[key] = n
	return n
}

func (s *Sorts) strLit(v string) string {
	if n, ok := s.strLits[v]; ok {
		return n
	}
	n := fmt.Sprintf("strlit%d", len(s.strLits))
	s.strLits[v] = n
	s.strOrd = append(s.strOrd, v)
	return n
}

// prelude emits all sort declarations (must be called after VC generation).
func (s *Sorts) prelude() string {
	var b strings.Builder
	b.WriteString("(set-logic ALL)\n")
	idx := s.idxSort()
	u8 := s.intSort(8)
	b.WriteString("(declare-sort Str 0)\n")
	fmt.Fprintf(&b, "(declare-fun str_len (Str) %s)\n", idx)
	fmt.Fprintf(&b, "(declare-fun str_at (Str %s) %s)\n", idx, u8)
	// every string has a length between 0 and 2^47 (address-space bound)
	if s.mode == BV {
		b.WriteString("(assert (forall ((s!a Str)) (! (and (bvsle #x0000000000000000 (str_len s!a)) (bvsle (str_len s!a) #x00007fffffffffff)) :pattern ((str_len s!a)))))\n")
	} else {
		b.WriteString("(assert (forall ((s!a Str)) (! (and (<= 0 (str_len s!a)) (<= (str_len s!a) 140737488355327)) :pattern ((str_len s!a)))))\n")
		// the elements of a string are bytes
		b.WriteString("(assert (forall ((s!b Str) (i!b Int)) (! (and (<= 0 (str_at s!b i!b)) (<= (str_at s!b i!b) 255)) :pattern ((str_at s!b i!b)))))\n")
	}
	fmt.Fprintf(&b, "(declare-datatype Slice ((mk_Slice (s_arr Int) (s_off %s) (s_len %s) (s_cap %s))))\n", idx, idx, idx)
	// Iface depends only on scalar sorts, Str, Slice and iface-free structs.
	// Struct sorts that are payloads must be declared before Iface; structs
	// containing Iface after.  We emit iface-free struct decls first.
	var pre, post []string
	for _, d := range s.decls {
		if strings.Contains(d, " Iface)") {
			post = append(post, d)
		} else {
			pre = append(pre, d)
		}
	}
	// a struct containing a struct that contains Iface must also be post
	changed := true
	for changed {
		changed = false
		var np []string
		for _, d := range pre {
			moved := false
			for _, pd := range post {
				nm := strings.Fields(pd)[1]
				if strings.Contains(d, " "+nm+")") {
					moved = true
					break
				}
			}
			if moved {
				post = append(post, d)
				changed = true
			} else {
				np = append(np, d)
			}
		}
		pre = np
	}
	// order post by dependency: simple repeated pass
	post = orderDecls(post)
	for _, d := range pre {
		b.WriteString(d + "\n")
	}
	b.WriteString("(declare-datatype Iface ((if_nil)")
	keys := append([]string(nil), s.ifaceOrd...)
	sort.Strings(keys)
	for _, k := range keys {
		c := s.ifaceCon[k]
		fmt.Fprintf(&b, " (%s (%s %s))", c.name, c.acc, c.sort)
	}
	b.WriteString(" (if_other (ifo_tag Int) (ifo_id Int))))\n")
	for _, d := range post {
		b.WriteString(d + "\n")
	}
	for i, v := range s.strOrd {
		n := s.strLits[v]
		fmt.Fprintf(&b, "(declare-const %s Str)\n", n)
		fmt.Fprintf(&b, "(assert (= (str_len %s) %s))\n", n, s.idxLit(int64(len(v))))
		if len(v) <= 64 {
			for j := 0; j < len(v); j++ {
				fmt.Fprintf(&b, "(assert (= (str_at %s %s) %s))\n", n, s.idxLit(int64(j)), s.intLit(big.NewInt(int64(v[j])), 8))
			}
		}
		for j := 0; j < i; j++ {
			fmt.Fprintf(&b, "(assert (not (= %s %s)))\n", n, s.strLits[s.strOrd[j]])
		}
	}
	if s.mode == BV {
		b.WriteString(bvPrelude)
	} else {
		b.WriteString(intPrelude)
	}
	return b.String()
}

func orderDecls(ds []string) []string {
	var out []string
	done := map[string]bool{}
	names := map[string]bool{}
	for _, d := range ds {
		names[strings.Fields(d)[1]] = true
	}
	for len(out) < len(ds) {
		progress := false
		for _, d := range ds {
			nm := strings.Fields(d)[1]
			if done[nm] {
				continue
			}
			ok := true
			for other := range names {
				if other != nm && !done[other] && (strings.Contains(d, " "+other+")")) {
					ok = false
				}
			}
			if ok {
				out = append(out, d)
				done[nm] = true
				progress = true
			}
		}
		if !progress {
			for _, d := range ds {
				if !done[strings.Fields(d)[1]] {
					out = append(out, d)
					done[strings.Fields(d)[1]] = true
				}
			}
		}
	}
	return out
}

const bvPrelude = `
(define-fun two63 () Float64 ((_ to_fp 11 53) RNE 9223372036854775808.0))
(define-fun goF2I ((f Float64)) (_ BitVec 64)
  (ite (and (not (fp.isNaN f)) (fp.lt f two63) (fp.geq f (fp.neg two63)))
       ((_ fp.to_sbv 64) RTZ f) #x8000000000000000))
(declare-fun f64bits (Float64) (_ BitVec 64))
`

const intPrelude = `
(define-fun wrapS64 ((x Int)) Int (- (mod (+ x 9223372036854775808) 18446744073709551616) 9223372036854775808))
(define-fun wrapU64 ((x Int)) Int (mod x 18446744073709551616))
(define-fun wrapS32 ((x Int)) Int (- (mod (+ x 2147483648) 4294967296) 2147483648))
(define-fun wrapU32 ((x Int)) Int (mod x 4294967296))
(define-fun wrapS16 ((x Int)) Int (- (mod (+ x 32768) 65536) 32768))
(define-fun wrapU16 ((x Int)) Int (mod x 65536))
(define-fun wrapS8 ((x Int)) Int (- (mod (+ x 128) 256) 128))
(define-fun wrapU8 ((x Int)) Int (mod x 256))
(define-fun goabs ((x Int)) Int (ite (< x 0) (- x) x))
(define-fun goquo ((x Int) (y Int)) Int (ite (= (< x 0) (< y 0)) (div (goabs x) (goabs y)) (- (div (goabs x) (goabs y)))))
(define-fun gorem ((x Int) (y Int)) Int (- x (* y (goquo x y))))
`

func (s *Sorts) wrapFn(bits int, signed bool) string {
	if signed {
		return fmt.Sprintf("wrapS%d", bits)
	}
	return fmt.Sprintf("wrapU%d", bits)
}

// rangePred returns the predicate "term is a valid value of integer type"
// (INT mode only; BV values are always in range).
func (s *Sorts) rangePred(term string, bits int, signed bool) string {
	if s.mode == BV {
		return "true"
	}
	lo, hi := intRange(bits, signed)
	return fmt.Sprintf("(and (<= %s %s) (<= %s %s))", s.intLit(lo, bits), term, term, s.intLit(hi, bits))
}

func intRange(bits int, signed bool) (*big.Int, *big.Int) {
	if signed {
		hi := new(big.Int).Lsh(big.NewInt(1), uint(bits-1))
		lo := new(big.Int).Neg(hi)
		hi.Sub(hi, big.NewInt(1))
		return lo, hi
	}
	hi := new(big.Int).Lsh(big.NewInt(1), uint(bits))
	hi.Sub(hi, big.NewInt(1))
	return big.NewInt(0), hi
}

func fpLit(f float64, bits64 bool) string {
	if bits64 {
		b := math.Float64bits(f)
		return fmt.Sprintf("(fp #b%01b #b%011b #b%052b)", b>>63, (b>>52)&0x7ff, b&((1<<52)-1))
	}
	b := math.Float32bits(float32(f))
	return fmt.Sprintf("(fp #b%01b #b%08b #b%023b)", b>>31, (b>>23)&0xff, b&((1<<23)-1))
}

// constTerm renders a Go constant of type t.
func (s *Sorts) constTerm(c constant.Value, t types.Type) (string, bool) {
	if c == nil {
		return s.zero(t), true
	}
	if bits, _, ok := isIntType(t); ok {
		cv := constant.ToInt(c)
		if cv.Kind() != constant.Int {
			return "", false
		}
		bi, ok2 := new(big.Int).SetString(cv.ExactString(), 10)
		if !ok2 {
			return "", false
		}
		return s.intLit(bi, bits), true
	}
	if isFloatType(t) {
		f, _ := constant.Float64Val(constant.ToFloat(c))
		b := t.Underlying().(*types.Basic)
		return fpLit(f, b.Kind() != types.Float32), true
	}
	if isBoolType(t) {
		if c.Kind() != constant.Bool {
			return "", false
		}
		if constant.BoolVal(c) {
			return "true", true
		}
		return "false", true
	}
	if isStringType(t) {
		return s.strLit(constant.StringVal(c)), true
	}
	return "", false
}

// zero returns the zero value term for type t.
func (s *Sorts) zero(t types.Type) string {
	switch u := t.Underlying().(type) {
	case *types.Basic:
		if bits, _, ok := intBits(u); ok {
			return s.intLit(big.NewInt(0), bits)
		}
		switch u.Kind() {
		case types.Bool, types.UntypedBool:
			return "false"
		case types.Float64, types.UntypedFloat:
			return fpLit(0, true)
		case types.Float32:
			return fpLit(0, false)
		case types.String, types.UntypedString:
			return s.strLit("")
		}
		return "0"
	case *types.Interface:
		return "if_nil"
	case *types.Slice:
		return fmt.Sprintf("(mk_Slice 0 %s %s %s)", s.idxLit(0), s.idxLit(0), s.idxLit(0))
	case *types.Array:
		return fmt.Sprintf("((as const %s) %s)", s.sortOf(t), s.zero(u.Elem()))
	case *types.Struct:
		info := s.info(t)
		if len(info.fields) == 0 {
			return info.ctor
		}
		var parts []string
		for _, ft := range info.ftypes {
			parts = append(parts, s.zero(ft))
		}
		return "(" + info.ctor + " " + strings.Join(parts, " ") + ")"
	}
	return "0"
}
