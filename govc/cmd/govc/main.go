package main

import (
	"encoding/json"
	"flag"
	"fmt"
	"os"
	"sort"
	"strings"
)

func usage() {
	fmt.Fprintln(os.Stderr, `usage:
  govc check --property Cxx [--tier quick|thorough] [--repo /repo] [--verif /verif]
  govc dump  --func <pkg.key> [--obl name]      print the SMT script(s)
  govc list  [--property Cxx]                   list contracts
  govc replay <replay.json>
  govc selftest [--property Cxx]                must-fail mutant corpus`)
	os.Exit(2)
}

func main() {
	if len(os.Args) < 2 {
		usage()
	}
	cmd := os.Args[1]
	fs := flag.NewFlagSet(cmd, flag.ExitOnError)
	prop := fs.String("property", "", "property id")
	tier := fs.String("tier", envOr("VERIF_TIER", "quick"), "quick|thorough")
	repo := fs.String("repo", "/repo", "repository")
	verif := fs.String("verif", "/verif", "verif dir")
	fn := fs.String("func", "", "function key")
	obl := fs.String("obl", "", "obligation name filter")
	dbg := fs.Bool("debug", false, "propagate engine panics")
	update := fs.Bool("update-claimed", false, "rewrite claimed/<prop>.txt from this run (reference tree only)")
	fs.Parse(os.Args[2:])
	debugPanics = *dbg
	switch cmd {
	case "check":
		if *prop == "" {
			usage()
		}
		os.Exit(runCheck(*repo, *verif, *prop, *tier, *update))
	case "dump":
		os.Exit(runDump(*repo, *verif, *fn, *obl))
	case "list":
		os.Exit(runList(*repo, *verif, *prop))
	case "registrations":
		_, all, err := loadContracts(*repo, "github.com/arnodel/golua")
		if err != nil {
			fmt.Fprintln(os.Stderr, err)
			os.Exit(2)
		}
		eng, err := loadEngine(*repo, *verif, []string{"github.com/arnodel/golua/..."}, "verif", fragOverlay(*repo, all, nil))
		if err != nil {
			fmt.Fprintln(os.Stderr, err)
			os.Exit(2)
		}
		for _, ri := range newEffGraph(eng).registrationInfos() {
			b, _ := json.Marshal(ri)
			fmt.Println(string(b))
		}
		os.Exit(0)
	case "names":
		// (re)generate claimed/names.json, the reference names used by rename inference
		_, all, err := loadContracts(*repo, "github.com/arnodel/golua")
		if err != nil {
			fmt.Fprintln(os.Stderr, err)
			os.Exit(2)
		}
		eng, err := loadEngine(*repo, *verif, []string{"github.com/arnodel/golua/..."}, "verif", fragOverlay(*repo, all, nil))
		if err != nil {
			fmt.Fprintln(os.Stderr, err)
			os.Exit(2)
		}
		idx := eng.buildNameIndex()
		if err := writeNameIndex(*verif, idx); err != nil {
			fmt.Fprintln(os.Stderr, err)
			os.Exit(2)
		}
		n := 0
		for _, p := range idx {
			n += len(p.Funcs)
		}
		fmt.Printf("names: %d packages, %d functions\n", len(idx), n)
		os.Exit(0)
	case "replay":
		if fs.NArg() < 1 {
			usage()
		}
		os.Exit(runReplayCmd(*repo, *verif, fs.Arg(0)))
	case "frag":
		_, all, err := loadContracts(*repo, "github.com/arnodel/golua")
		if err != nil {
			fmt.Fprintln(os.Stderr, err)
			os.Exit(2)
		}
		for k, v := range fragOverlay(*repo, all, nil) {
			fmt.Printf("// ==== %s\n%s\n", k, v)
		}
		for k, fi := range fragReport {
			fmt.Printf("// %s: %s:%d-%d params=%v rewrites=%d err=%q\n", k, fi.File, fi.From, fi.To, fi.Params, fi.Rewrite, fi.Err)
		}
		os.Exit(0)
	case "selftest":
		os.Exit(runSelftest(*repo, *verif, *prop, *tier))
	default:
		usage()
	}
}

func envOr(k, d string) string {
	if v := os.Getenv(k); v != "" {
		return v
	}
	return d
}

func patternsFor(all []*Contract, prop string) []string {
	set := map[string]bool{}
	for _, c := range all {
		if prop == "" || c.hasProp(prop) {
			set[c.PkgPath] = true
		}
	}
	var out []string
	for k := range set {
		out = append(out, k)
	}
	sort.Strings(out)
	return out
}

func runList(repo, verif, prop string) int {
	_, all, err := loadContracts(repo, "github.com/arnodel/golua")
	if err != nil {
		fmt.Fprintln(os.Stderr, err)
		return 2
	}
	for _, c := range all {
		if prop == "" || c.hasProp(prop) {
			fmt.Printf("%s.%s props=%s clauses=%d\n", c.PkgPath, c.Key, strings.Join(c.Props, ","), len(c.Clauses))
		}
	}
	return 0
}

func runDump(repo, verif, fn, obl string) int {
	_, all, err := loadContracts(repo, "github.com/arnodel/golua")
	if err != nil {
		fmt.Fprintln(os.Stderr, err)
		return 2
	}
	var target *Contract
	for _, c := range all {
		if c.PkgPath+"."+c.Key == fn || c.Key == fn {
			target = c
		}
	}
	if target == nil {
		fmt.Fprintln(os.Stderr, "no contract for", fn)
		return 2
	}
	eng, err := loadEngine(repo, verif, []string{target.PkgPath}, "verif", fragOverlay(repo, all, []string{target.PkgPath}))
	if err != nil {
		fmt.Fprintln(os.Stderr, err)
		return 2
	}
	fv := eng.verifyFunc(eng.contracts[target.PkgPath+"."+target.Key])
	if fv.Err != "" {
		fmt.Println("; ERROR:", fv.Err)
	}
	for _, o := range fv.Obls {
		if obl == "" {
			fmt.Printf("; %s [%s] %s\n", o.Name, o.Kind, o.Desc)
			continue
		}
		if o.Name == obl {
			fmt.Print(fv.script(o, eng, true))
		}
	}
	return 0
}
