package main

// Go operator semantics -> SMT, for both integer encodings.

import (
	"fmt"
	"go/token"
	"go/types"
	"math/big"
)

func (c *Ctx) wrap(term string, bits int, signed bool) string {
	if c.mode == BV {
		return term
	}
	return fmt.Sprintf("(%s %s)", c.sorts.wrapFn(bits, signed), term)
}

// binop implements x op y where both have Go type t (operand type); result
// type rt.  div0 receives the condition under which the operation panics.
func (c *Ctx) binop(op token.Token, x, y string, t types.Type, yt types.Type) (res string, panicCond string, ok bool) {
	if bits, signed, isInt := isIntType(t); isInt {
		return c.intBinop(op, x, y, bits, signed, yt)
	}
	if isFloatType(t) {
		switch op {
		case token.ADD:
			return fmt.Sprintf("(fp.add RNE %s %s)", x, y), "", true
		case token.SUB:
			return fmt.Sprintf("(fp.sub RNE %s %s)", x, y), "", true
		case token.MUL:
			return fmt.Sprintf("(fp.mul RNE %s %s)", x, y), "", true
		case token.QUO:
			return fmt.Sprintf("(fp.div RNE %s %s)", x, y), "", true
		case token.EQL:
			return fmt.Sprintf("(fp.eq %s %s)", x, y), "", true
		case token.NEQ:
			return fmt.Sprintf("(not (fp.eq %s %s))", x, y), "", true
		case token.LSS:
			return fmt.Sprintf("(fp.lt %s %s)", x, y), "", true
		case token.LEQ:
			return fmt.Sprintf("(fp.leq %s %s)", x, y), "", true
		case token.GTR:
			return fmt.Sprintf("(fp.gt %s %s)", x, y), "", true
		case token.GEQ:
			return fmt.Sprintf("(fp.geq %s %s)", x, y), "", true
		}
		return "", "", false
	}
	if isBoolType(t) {
		switch op {
		case token.EQL:
			return fmt.Sprintf("(= %s %s)", x, y), "", true
		case token.NEQ:
			return fmt.Sprintf("(not (= %s %s))", x, y), "", true
		case token.LAND:
			return and(x, y), "", true
		case token.LOR:
			return or(x, y), "", true
		}
		return "", "", false
	}
	if isStringType(t) {
		switch op {
		case token.EQL:
			c.note("string == modelled as identity of abstract Str values (may distinguish equal contents: over-approximation)")
			return fmt.Sprintf("(= %s %s)", x, y), "", true
		case token.NEQ:
			c.note("string == modelled as identity of abstract Str values (may distinguish equal contents: over-approximation)")
			return fmt.Sprintf("(not (= %s %s))", x, y), "", true
		case token.ADD:
			c.declUF("str_concat", []string{"Str", "Str"}, "Str")
			r := fmt.Sprintf("(str_concat %s %s)", x, y)
			if c.mode == INT {
				c.assume("true", fmt.Sprintf("(= (str_len %s) (+ (str_len %s) (str_len %s)))", r, x, y))
			}
			return r, "", true
		case token.LSS, token.LEQ, token.GTR, token.GEQ:
			c.declUF("str_lt", []string{"Str", "Str"}, "Bool")
			switch op {
			case token.LSS:
				return fmt.Sprintf("(str_lt %s %s)", x, y), "", true
			case token.GTR:
				return fmt.Sprintf("(str_lt %s %s)", y, x), "", true
			case token.LEQ:
				return fmt.Sprintf("(not (str_lt %s %s))", y, x), "", true
			case token.GEQ:
				return fmt.Sprintf("(not (str_lt %s %s))", x, y), "", true
			}
		}
		return "", "", false
	}
	// pointers, interfaces, structs, etc.: only equality
	switch op {
	case token.EQL:
		return fmt.Sprintf("(= %s %s)", x, y), "", true
	case token.NEQ:
		return fmt.Sprintf("(not (= %s %s))", x, y), "", true
	}
	return "", "", false
}

func (c *Ctx) intBinop(op token.Token, x, y string, bits int, signed bool, yt types.Type) (string, string, bool) {
	s := c.sorts
	zero := s.intLit(big.NewInt(0), bits)
	if c.mode == BV {
		sfx := "u"
		if signed {
			sfx = "s"
		}
		switch op {
		case token.ADD:
			return fmt.Sprintf("(bvadd %s %s)", x, y), "", true
		case token.SUB:
			return fmt.Sprintf("(bvsub %s %s)", x, y), "", true
		case token.MUL:
			return fmt.Sprintf("(bvmul %s %s)", x, y), "", true
		case token.QUO:
			return fmt.Sprintf("(bv%sdiv %s %s)", sfx, x, y), fmt.Sprintf("(= %s %s)", y, zero), true
		case token.REM:
			return fmt.Sprintf("(bv%srem %s %s)", sfx, x, y), fmt.Sprintf("(= %s %s)", y, zero), true
		case token.AND:
			return fmt.Sprintf("(bvand %s %s)", x, y), "", true
		case token.OR:
			return fmt.Sprintf("(bvor %s %s)", x, y), "", true
		case token.XOR:
			return fmt.Sprintf("(bvxor %s %s)", x, y), "", true
		case token.AND_NOT:
			return fmt.Sprintf("(bvand %s (bvnot %s))", x, y), "", true
		case token.SHL, token.SHR:
			ybits, ysigned, _ := isIntType(yt)
			if ybits == 0 {
				ybits, ysigned = bits, false
			}
			cnt := y
			pc := ""
			if ysigned {
				pc = fmt.Sprintf("(bvslt %s %s)", y, s.intLit(big.NewInt(0), ybits))
			}
			if ybits < bits {
				cnt = fmt.Sprintf("((_ zero_extend %d) %s)", bits-ybits, y)
			} else if ybits > bits {
				cnt = fmt.Sprintf("(ite (bvuge %s %s) %s ((_ extract %d 0) %s))", y, s.intLit(big.NewInt(int64(bits)), ybits),
					s.intLit(big.NewInt(int64(bits)), bits), bits-1, y)
			}
			if op == token.SHL {
				return fmt.Sprintf("(bvshl %s %s)", x, cnt), pc, true
			}
			if signed {
				return fmt.Sprintf("(bvashr %s %s)", x, cnt), pc, true
			}
			return fmt.Sprintf("(bvlshr %s %s)", x, cnt), pc, true
		case token.EQL:
			return fmt.Sprintf("(= %s %s)", x, y), "", true
		case token.NEQ:
			return fmt.Sprintf("(not (= %s %s))", x, y), "", true
		case token.LSS:
			return fmt.Sprintf("(bv%slt %s %s)", sfx, x, y), "", true
		case token.LEQ:
			return fmt.Sprintf("(bv%sle %s %s)", sfx, x, y), "", true
		case token.GTR:
			return fmt.Sprintf("(bv%sgt %s %s)", sfx, x, y), "", true
		case token.GEQ:
			return fmt.Sprintf("(bv%sge %s %s)", sfx, x, y), "", true
		}
		return "", "", false
	}
	// INT mode
	w := func(t string) string { return c.wrap(t, bits, signed) }
	switch op {
	case token.ADD:
		return w(fmt.Sprintf("(+ %s %s)", x, y)), "", true
	case token.SUB:
		return w(fmt.Sprintf("(- %s %s)", x, y)), "", true
	case token.MUL:
		return w(fmt.Sprintf("(* %s %s)", x, y)), "", true
	case token.QUO:
		return w(fmt.Sprintf("(goquo %s %s)", x, y)), fmt.Sprintf("(= %s 0)", y), true
	case token.REM:
		return fmt.Sprintf("(gorem %s %s)", x, y), fmt.Sprintf("(= %s 0)", y), true
	case token.EQL:
		return fmt.Sprintf("(= %s %s)", x, y), "", true
	case token.NEQ:
		return fmt.Sprintf("(not (= %s %s))", x, y), "", true
	case token.LSS:
		return fmt.Sprintf("(< %s %s)", x, y), "", true
	case token.LEQ:
		return fmt.Sprintf("(<= %s %s)", x, y), "", true
	case token.GTR:
		return fmt.Sprintf("(> %s %s)", x, y), "", true
	case token.GEQ:
		return fmt.Sprintf("(>= %s %s)", x, y), "", true
	case token.SHL, token.SHR:
		// constant shift counts only
		if k, ok := intLitValue(y); ok && k >= 0 && k < 128 {
			p := new(big.Int).Lsh(big.NewInt(1), uint(k)).String()
			if op == token.SHL {
				return w(fmt.Sprintf("(* %s %s)", x, p)), "", true
			}
			return fmt.Sprintf("(div %s %s)", x, p), "", true
		}
		_, ysigned, _ := isIntType(yt)
		pc := ""
		if ysigned {
			pc = fmt.Sprintf("(< %s 0)", y)
		}
		name := "uf_shl"
		if op == token.SHR {
			name = "uf_shr"
		}
		c.declUF(name, []string{"Int", "Int"}, "Int")
		c.note("int-mode shift by non-constant: uninterpreted " + name)
		r := fmt.Sprintf("(%s %s %s)", name, x, y)
		c.assume("true", s.rangePred(r, bits, signed))
		return r, pc, true
	case token.AND:
		if k, ok := intLitValue(y); ok && k >= 0 && isMask(k) {
			return fmt.Sprintf("(mod %s %d)", x, k+1), "", true
		}
		if k, ok := intLitValue(x); ok && k >= 0 && isMask(k) {
			return fmt.Sprintf("(mod %s %d)", y, k+1), "", true
		}
		fallthrough
	case token.OR, token.XOR, token.AND_NOT:
		name := map[token.Token]string{token.AND: "uf_and", token.OR: "uf_or", token.XOR: "uf_xor", token.AND_NOT: "uf_andnot"}[op]
		c.declUF(name, []string{"Int", "Int"}, "Int")
		c.note("int-mode bit operator: uninterpreted " + name + " with range axiom")
		r := fmt.Sprintf("(%s %s %s)", name, x, y)
		c.assume("true", s.rangePred(r, bits, signed))
		if op == token.AND && !signed {
			c.assume("true", fmt.Sprintf("(and (<= %s %s) (<= %s %s))", r, x, r, y))
		}
		return r, "", true
	}
	return "", "", false
}

func isMask(k int64) bool { return (k+1)&k == 0 }

func intLitValue(t string) (int64, bool) {
	var v int64
	if _, err := fmt.Sscanf(t, "%d", &v); err == nil && fmt.Sprint(v) == t {
		return v, true
	}
	return 0, false
}

func (c *Ctx) unop(op token.Token, x string, t types.Type) (string, bool) {
	if bits, signed, ok := isIntType(t); ok {
		switch op {
		case token.SUB:
			if c.mode == BV {
				return fmt.Sprintf("(bvneg %s)", x), true
			}
			return c.wrap(fmt.Sprintf("(- %s)", x), bits, signed), true
		case token.XOR:
			if c.mode == BV {
				return fmt.Sprintf("(bvnot %s)", x), true
			}
			if signed {
				return fmt.Sprintf("(- (- %s) 1)", x), true
			}
			_, hi := intRange(bits, false)
			return fmt.Sprintf("(- %s %s)", hi.String(), x), true
		}
		return "", false
	}
	if isFloatType(t) && op == token.SUB {
		return fmt.Sprintf("(fp.neg %s)", x), true
	}
	if isBoolType(t) && op == token.NOT {
		return not(x), true
	}
	return "", false
}

// convert implements Go conversion T(x) between basic numeric types.
func (c *Ctx) convert(x string, from, to types.Type) (string, bool) {
	fb, fs, fi := isIntType(from)
	tb, ts, ti := isIntType(to)
	switch {
	case fi && ti:
		if c.mode == BV {
			switch {
			case fb == tb:
				return x, true
			case fb > tb:
				return fmt.Sprintf("((_ extract %d 0) %s)", tb-1, x), true
			case fs:
				return fmt.Sprintf("((_ sign_extend %d) %s)", tb-fb, x), true
			default:
				return fmt.Sprintf("((_ zero_extend %d) %s)", tb-fb, x), true
			}
		}
		// INT: value preserved if it fits; otherwise wrap
		if fb < tb && (fs == ts || !fs) {
			return x, true
		}
		if fb == tb && fs == ts {
			return x, true
		}
		return c.wrap(x, tb, ts), true
	case fi && isFloatType(to):
		f32 := to.Underlying().(*types.Basic).Kind() == types.Float32
		eb, sb := 11, 53
		if f32 {
			eb, sb = 8, 24
		}
		if c.mode == BV {
			if fs {
				return fmt.Sprintf("((_ to_fp %d %d) RNE %s)", eb, sb, x), true
			}
			return fmt.Sprintf("((_ to_fp_unsigned %d %d) RNE %s)", eb, sb, x), true
		}
		return fmt.Sprintf("((_ to_fp %d %d) RNE (to_real %s))", eb, sb, x), true
	case isFloatType(from) && ti:
		if c.mode == BV && tb == 64 && ts && from.Underlying().(*types.Basic).Kind() != types.Float32 {
			c.note("amd64: int64(float64) out of range (incl. NaN) = 0x8000000000000000 (CVTTSD2SI)")
			return fmt.Sprintf("(goF2I %s)", x), true
		}
		return "", false
	case isFloatType(from) && isFloatType(to):
		fk := from.Underlying().(*types.Basic).Kind()
		tk := to.Underlying().(*types.Basic).Kind()
		if fk == types.UntypedFloat {
			fk = types.Float64
		}
		if fk == tk {
			return x, true
		}
		if tk == types.Float32 {
			return fmt.Sprintf("((_ to_fp 8 24) RNE %s)", x), true
		}
		return fmt.Sprintf("((_ to_fp 11 53) RNE %s)", x), true
	}
	return "", false
}

// bvLit: 64-bit vector literal.
func bvLit(u uint64) string { return fmt.Sprintf("#x%016x", u) }
