package main

// Parser for //@ contract blocks kept in comment-only verif_contracts.go files
// (build tag verif) next to the code they describe.

import (
	"sort"
	"fmt"
	"sync"
	"go/ast"
	"go/parser"
	"os"
	"path/filepath"
	"strconv"
	"strings"
)

type Clause struct {
	Kind  string // requires ensures exits exits_ensures modifies invariant decreases assert_before_call assert_after_call ghost effects arity forall let
	Text  string
	Expr  ast.Expr
	Exprs []ast.Expr // modifies
	Loop  int
	Name  string // exits kind, call name, var decls
	When  ast.Expr
	Idx   int // ordinal among clauses of same kind
	Line  int
	File  string
	InScope  bool // call-site assertion attached only where its identifiers are in scope
	Never    bool // never_call: no call site is expected
	Attached int
}

type Contract struct {
	Key      string
	PkgPath  string
	Props    []string
	Mode     Mode
	ModeSet  bool
	Clauses  []*Clause
	Inline   bool
	Trusted  bool
	Pure     bool
	RTE      bool
	NoPanic  bool
	IsLemma  bool
	IsFrag   bool
	FragSel  string
	FragOf   string
	File     string
	Line     int
	Timeout  int
	NoCover  bool
	Opaque   bool // never auto-inline
	External bool // explicitly external: havoc
	EffOnly  bool // carries only effect declarations: no VCs are generated for it
	Standalone bool // invisible to callers
	Build    string // build tag under which this contract applies ("" = default build)
}

func (ct *Contract) byKind(kind string) []*Clause {
	var out []*Clause
	for _, c := range ct.Clauses {
		if c.Kind == kind {
			out = append(out, c)
		}
	}
	return out
}

func (ct *Contract) hasProp(p string) bool {
	for _, x := range ct.Props {
		if x == p {
			return true
		}
	}
	return false
}

// desugar rewrites "A ==> B" to implies(A, B) and "A <==> B" to iff(A, B).
func desugar(s string) string {
	// split top-level by commas? not needed: we process parenthesised groups recursively.
	var out strings.Builder
	i := 0
	// first, recursively desugar inside parentheses/brackets
	for i < len(s) {
		ch := s[i]
		if ch == '(' || ch == '[' {
			closeCh := byte(')')
			if ch == '[' {
				closeCh = ']'
			}
			depth := 1
			j := i + 1
			for j < len(s) && depth > 0 {
				if s[j] == ch {
					depth++
				} else if s[j] == closeCh {
					depth--
				} else if s[j] == '"' {
					j++
					for j < len(s) && s[j] != '"' {
						if s[j] == '\\' {
							j++
						}
						j++
					}
				}
				j++
			}
			inner := s[i+1 : j-1]
			out.WriteByte(ch)
			out.WriteString(desugarArgs(inner))
			out.WriteByte(closeCh)
			i = j
			continue
		}
		if ch == '"' {
			j := i + 1
			for j < len(s) && s[j] != '"' {
				if s[j] == '\\' {
					j++
				}
				j++
			}
			out.WriteString(s[i : j+1])
			i = j + 1
			continue
		}
		out.WriteByte(ch)
		i++
	}
	t := out.String()
	// now top-level operators (no parens left unprocessed at depth 0)
	if k := topLevelIndex(t, "<==>"); k >= 0 {
		return "iff(" + desugar(t[:k]) + ", " + desugar(t[k+4:]) + ")"
	}
	if k := topLevelIndex(t, "==>"); k >= 0 {
		return "implies(" + desugar(t[:k]) + ", " + desugar(t[k+3:]) + ")"
	}
	return t
}

func desugarArgs(s string) string {
	parts := splitTop(s, ',')
	for i, p := range parts {
		parts[i] = desugar(p)
	}
	return strings.Join(parts, ",")
}

func splitTop(s string, sep byte) []string {
	var parts []string
	depth := 0
	last := 0
	for i := 0; i < len(s); i++ {
		switch s[i] {
		case '(', '[', '{':
			depth++
		case ')', ']', '}':
			depth--
		case '"':
			i++
			for i < len(s) && s[i] != '"' {
				if s[i] == '\\' {
					i++
				}
				i++
			}
		default:
			if s[i] == sep && depth == 0 {
				parts = append(parts, s[last:i])
				last = i + 1
			}
		}
	}
	parts = append(parts, s[last:])
	return parts
}

func topLevelIndex(s, op string) int {
	depth := 0
	for i := 0; i+len(op) <= len(s); i++ {
		switch s[i] {
		case '(', '[', '{':
			depth++
		case ')', ']', '}':
			depth--
		case '"':
			i++
			for i < len(s) && s[i] != '"' {
				if s[i] == '\\' {
					i++
				}
				i++
			}
		}
		if depth == 0 && strings.HasPrefix(s[i:], op) {
			if op == "==>" && i > 0 && s[i-1] == '<' {
				continue
			}
			return i
		}
	}
	return -1
}

type macro struct {
	params []string
	body   string
}

var macros = map[string]*macro{}
var macrosMu sync.RWMutex

func lookupMacro(name string) (*macro, bool) {
	macrosMu.RLock()
	defer macrosMu.RUnlock()
	m, ok := macros[name]
	return m, ok
}

func isIdentChar(b byte) bool {
	return b == '_' || b >= 'a' && b <= 'z' || b >= 'A' && b <= 'Z' || b >= '0' && b <= '9'
}

// expandMacros textually expands NAME(args) for declared macros.
func expandMacros(s string, depth int) string {
	if depth > 8 {
		return s
	}
	var out strings.Builder
	i := 0
	changed := false
	for i < len(s) {
		if isIdentChar(s[i]) && (i == 0 || !isIdentChar(s[i-1]) && s[i-1] != '.') {
			j := i
			for j < len(s) && isIdentChar(s[j]) {
				j++
			}
			name := s[i:j]
			if m, ok := lookupMacro(name); ok && j < len(s) && s[j] == '(' {
				sx, end := readSexp(s, j)
				args := splitTop(sx[1:len(sx)-1], ',')
				if len(args) == len(m.params) {
					body := m.body
					// simultaneous substitution of parameters (identifier-boundary aware)
					var b strings.Builder
					k := 0
					for k < len(body) {
						if isIdentChar(body[k]) && (k == 0 || !isIdentChar(body[k-1])) {
							l := k
							for l < len(body) && isIdentChar(body[l]) {
								l++
							}
							word := body[k:l]
							repl := word
							for pi, p := range m.params {
								if p == word && (k == 0 || body[k-1] != '.') {
									repl = "(" + strings.TrimSpace(args[pi]) + ")"
								}
							}
							b.WriteString(repl)
							k = l
							continue
						}
						b.WriteByte(body[k])
						k++
					}
					out.WriteString("(" + b.String() + ")")
					i = end
					changed = true
					continue
				}
			}
			out.WriteString(name)
			i = j
			continue
		}
		out.WriteByte(s[i])
		i++
	}
	if changed {
		return expandMacros(out.String(), depth+1)
	}
	return out.String()
}

func parseSpecExpr(s string) (ast.Expr, error) {
	d := desugar(expandMacros(strings.ReplaceAll(strings.TrimSpace(s), "$", "dollar_"), 0))
	e, err := parser.ParseExpr(d)
	if err != nil {
		return nil, fmt.Errorf("%v in %q", err, d)
	}
	return e, nil
}

// parseContractFile reads one verif_contracts*.go file.
func parseContractFile(path, pkgPath string) ([]*Contract, error) {
	data, err := os.ReadFile(path)
	if err != nil {
		return nil, err
	}
	var out []*Contract
	var cur *Contract
	counts := map[string]int{}
	lines := strings.Split(string(data), "\n")
	for ln, line := range lines {
		t := strings.TrimSpace(line)
		if !strings.HasPrefix(t, "//@") {
			continue
		}
		t = strings.TrimSpace(t[3:])
		if t == "" {
			continue
		}
		if i := strings.Index(t, " //"); i >= 0 { // trailing comment
			t = strings.TrimSpace(t[:i])
		}
		word, rest := t, ""
		if i := strings.IndexAny(t, " \t"); i >= 0 {
			word, rest = t[:i], strings.TrimSpace(t[i+1:])
		}
		fail := func(e error) error { return fmt.Errorf("%s:%d: %v", path, ln+1, e) }
		if word == "typeinv" {
			// typeinv T: EXPR(self)   — assumed for every object of type T read from the heap
			i := strings.Index(rest, ":")
			if i < 0 {
				return nil, fail(fmt.Errorf("typeinv T: EXPR"))
			}
			e, err := parseSpecExpr(rest[i+1:])
			if err != nil {
				return nil, fail(err)
			}
			typeInvMu.Lock()
			typeInvs[pkgPath+"."+strings.TrimSpace(rest[:i])] = &typeInv{Expr: e, Text: strings.TrimSpace(rest[i+1:]), Pkg: pkgPath}
			typeInvMu.Unlock()
			continue
		}
		if word == "stable" {
			// stable T.f [written-by F1, F2 ...] — field f of objects of type T keeps its
			// value across calls whose effects are unknown (assumed; the write sites are
			// audited by the effect checker: only the listed functions store to it)
			decl, writers := rest, ""
			if i := strings.Index(rest, "written-by"); i >= 0 {
				decl, writers = strings.TrimSpace(rest[:i]), strings.TrimSpace(rest[i+len("written-by"):])
			}
			parts := strings.SplitN(decl, ".", 2)
			if len(parts) != 2 {
				return nil, fail(fmt.Errorf("stable T.f [written-by ...]"))
			}
			sf := &stableField{Pkg: pkgPath, Type: strings.TrimSpace(parts[0]), Field: strings.TrimSpace(parts[1])}
			for _, w := range strings.Split(writers, ",") {
				if w = strings.TrimSpace(w); w != "" {
					sf.Writers = append(sf.Writers, w)
				}
			}
			typeInvMu.Lock()
			k := pkgPath + "." + sf.Type
			dup := false
			for _, o := range stableFields[k] {
				if o.Field == sf.Field {
					dup = true
				}
			}
			if !dup {
				stableFields[k] = append(stableFields[k], sf)
			}
			typeInvMu.Unlock()
			continue
		}
		if word == "macro" {
			// macro NAME(p1, p2) = BODY
			eq := strings.Index(rest, "=")
			lp := strings.Index(rest, "(")
			rp := strings.Index(rest, ")")
			if eq < 0 || lp < 0 || rp < 0 || rp > eq {
				return nil, fmt.Errorf("%s:%d: bad macro", path, ln+1)
			}
			m := &macro{body: strings.TrimSpace(rest[eq+1:])}
			for _, p := range strings.Split(rest[lp+1:rp], ",") {
				if strings.TrimSpace(p) != "" {
					m.params = append(m.params, strings.TrimSpace(p))
				}
			}
			macrosMu.Lock()
			macros[strings.TrimSpace(rest[:lp])] = m
			macrosMu.Unlock()
			continue
		}
		switch word {
		case "func", "lemma", "fragment":
			cur = &Contract{Key: rest, PkgPath: pkgPath, File: path, Line: ln + 1, IsLemma: word == "lemma", RTE: true}
			if word == "fragment" {
				// fragment NAME of FUNC at SELECTOR
				parts := strings.SplitN(rest, " of ", 2)
				if len(parts) != 2 {
					return nil, fail(fmt.Errorf("bad fragment header"))
				}
				p2 := strings.SplitN(parts[1], " at ", 2)
				if len(p2) != 2 {
					return nil, fail(fmt.Errorf("bad fragment header"))
				}
				cur.Key = strings.TrimSpace(parts[0])
				cur.IsFrag = true
				cur.FragOf = strings.TrimSpace(p2[0])
				cur.FragSel = strings.TrimSpace(p2[1])
			}
			out = append(out, cur)
			counts = map[string]int{}
			continue
		}
		if cur == nil {
			return nil, fail(fmt.Errorf("clause outside func/lemma block"))
		}
		cl := &Clause{Kind: word, Text: rest, Line: ln + 1, File: path}
		loopPrefix := func() error {
			// "N: kind expr"
			i := strings.Index(rest, ":")
			if i < 0 {
				return fmt.Errorf("loop clause needs 'loop N: ...'")
			}
			n, err := strconv.Atoi(strings.TrimSpace(rest[:i]))
			if err != nil {
				return err
			}
			cl.Loop = n
			r := strings.TrimSpace(rest[i+1:])
			j := strings.IndexAny(r, " \t")
			if j < 0 {
				cl.Kind = r
				cl.Text = ""
				return nil
			}
			cl.Kind = r[:j]
			cl.Text = strings.TrimSpace(r[j+1:])
			return nil
		}
		switch word {
		case "prop":
			cur.Props = append(cur.Props, strings.Fields(rest)...)
			continue
		case "arith":
			cur.ModeSet = true
			if rest == "bv" {
				cur.Mode = BV
			} else if rest == "int" {
				cur.Mode = INT
			} else {
				return nil, fail(fmt.Errorf("arith bv|int"))
			}
			continue
		case "inline":
			cur.Inline = true
			continue
		case "opaque":
			cur.Opaque = true
			continue
		case "external":
			cur.External = true
			continue
		case "effectsonly":
			cur.EffOnly = true
			continue
		case "build":
			cur.Build = strings.TrimSpace(rest)
			continue
		case "standalone":
			// verified on its own; callers keep treating the function as they would
			// without a contract (inlined or external), so adding it cannot disturb them
			cur.Standalone = true
			continue
		case "trusted":
			cur.Trusted = true
			continue
		case "pure":
			cur.Pure = true
			continue
		case "norte":
			cur.RTE = false
			continue
		case "nopanic":
			cur.NoPanic = true
			continue
		case "nocover":
			cur.NoCover = true
			continue
		case "timeout":
			cur.Timeout, _ = strconv.Atoi(rest)
			continue
		case "loop":
			if err := loopPrefix(); err != nil {
				return nil, fail(err)
			}
		}
		switch cl.Kind {
		case "requires", "ensures", "exits_ensures", "invariant", "decreases", "assert":
			e, err := parseSpecExpr(cl.Text)
			if err != nil {
				return nil, fail(err)
			}
			cl.Expr = e
		case "exits":
			// exits KIND [when EXPR]
			parts := strings.SplitN(cl.Text, " when ", 2)
			cl.Name = strings.TrimSpace(parts[0])
			if len(parts) == 2 {
				e, err := parseSpecExpr(parts[1])
				if err != nil {
					return nil, fail(err)
				}
				cl.When = e
			}
		case "modifies":
			if strings.TrimSpace(cl.Text) != "" && strings.TrimSpace(cl.Text) != "nothing" {
				for _, p := range splitTop(cl.Text, ',') {
					e, err := parseSpecExpr(p)
					if err != nil {
						return nil, fail(err)
					}
					cl.Exprs = append(cl.Exprs, e)
				}
			}
		case "assert_before_call", "assert_after_call":
			i := strings.Index(cl.Text, ":")
			if i < 0 {
				return nil, fail(fmt.Errorf("%s NAME: EXPR", cl.Kind))
			}
			cl.Name = strings.TrimSpace(cl.Text[:i])
			if strings.HasSuffix(cl.Name, " inscope") {
				cl.Name = strings.TrimSpace(strings.TrimSuffix(cl.Name, " inscope"))
				cl.InScope = true
			}
			e, err := parseSpecExpr(cl.Text[i+1:])
			if err != nil {
				return nil, fail(err)
			}
			cl.Expr = e
		case "capture":
			// capture CALLEE as NAME: the results of the (last executed) call to CALLEE
			// are available to later assertions as NAME0, NAME1, ... (NAME = NAME0)
			parts := strings.Fields(cl.Text)
			if len(parts) != 3 || parts[1] != "as" {
				return nil, fail(fmt.Errorf("capture CALLEE as NAME"))
			}
			cl.Name = parts[0]
			cl.Text = parts[2]
		case "never_call":
			// never_call NAME: the function makes no call to NAME (an assertion `false`
			// at every such call site; nothing is demanded when there is none)
			cl.Name = strings.TrimSpace(cl.Text)
			cl.Kind = "assert_before_call"
			cl.Never = true
			e, err := parseSpecExpr("false")
			if err != nil {
				return nil, fail(err)
			}
			cl.Expr = e
		case "forall", "let":
			cl.Name = cl.Text
		case "ghost", "effects", "arity", "charges", "bounded", "reads", "allocs", "conversions":
			// handled by their consumers
		default:
			return nil, fail(fmt.Errorf("unknown clause %q", cl.Kind))
		}
		key := fmt.Sprintf("%s/%d", cl.Kind, cl.Loop)
		counts[key]++
		cl.Idx = counts[key]
		cur.Clauses = append(cur.Clauses, cl)
	}
	return out, nil
}

// loadContracts finds verif_contracts*.go below root.
var contractsMu sync.Mutex

type typeInv struct {
	Expr ast.Expr
	Text string
	Pkg  string
}

type stableField struct {
	Pkg, Type, Field string
	Writers          []string
}

var stableFields = map[string][]*stableField{}

func lookupStable(typeKey string) []*stableField {
	typeInvMu.RLock()
	defer typeInvMu.RUnlock()
	return stableFields[typeKey]
}

func allStable() []*stableField {
	typeInvMu.RLock()
	defer typeInvMu.RUnlock()
	var out []*stableField
	for _, l := range stableFields {
		out = append(out, l...)
	}
	sort.Slice(out, func(i, j int) bool { return out[i].Pkg+out[i].Type+out[i].Field < out[j].Pkg+out[j].Type+out[j].Field })
	return out
}

var typeInvs = map[string]*typeInv{}
var typeInvMu sync.RWMutex

func lookupTypeInv(name string) *typeInv {
	typeInvMu.RLock()
	defer typeInvMu.RUnlock()
	return typeInvs[name]
}

func loadContracts(root, modPath string) (map[string]*Contract, []*Contract, error) {
	contractsMu.Lock()
	defer contractsMu.Unlock()
	byKey := map[string]*Contract{}
	var all []*Contract
	err := filepath.Walk(root, func(p string, info os.FileInfo, err error) error {
		if err != nil {
			return err
		}
		if info.IsDir() {
			if info.Name() == ".git" {
				return filepath.SkipDir
			}
			return nil
		}
		base := filepath.Base(p)
		if !strings.HasPrefix(base, "verif_contracts") || !strings.HasSuffix(base, ".go") {
			return nil
		}
		rel, _ := filepath.Rel(root, filepath.Dir(p))
		pkgPath := modPath
		if rel != "." {
			pkgPath = modPath + "/" + filepath.ToSlash(rel)
		}
		cs, err := parseContractFile(p, pkgPath)
		if err != nil {
			return err
		}
		for _, c := range cs {
			k := c.PkgPath + "." + c.Key
			if _, dup := byKey[k]; dup {
				return fmt.Errorf("%s:%d: duplicate contract for %s", c.File, c.Line, k)
			}
			byKey[k] = c
			all = append(all, c)
		}
		return nil
	})
	return byKey, all, err
}
