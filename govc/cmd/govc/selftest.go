package main

// Must-fail corpus: deliberate property-breaking edits applied in memory
// (packages.Config.Overlay) — each must make a named obligation fail.

import (
	"encoding/json"
	"fmt"
	"os"
	"path/filepath"
	"sort"
	"strings"
	"sync"
)

type Mutant struct {
	ID     string   `json:"id"`
	Prop   string   `json:"property"`
	File   string   `json:"file"`
	Old    string   `json:"old"`
	New    string   `json:"new"`
	Expect []string `json:"expect"` // obligation name prefixes of which at least one must fail
	Note   string   `json:"note,omitempty"`
}

func loadMutants(verif string) ([]Mutant, error) {
	var out []Mutant
	files, _ := filepath.Glob(filepath.Join(verif, "mutants", "*.json"))
	sort.Strings(files)
	for _, f := range files {
		data, err := os.ReadFile(f)
		if err != nil {
			return nil, err
		}
		var ms []Mutant
		if err := json.Unmarshal(data, &ms); err != nil {
			return nil, fmt.Errorf("%s: %v", f, err)
		}
		out = append(out, ms...)
	}
	return out, nil
}

type mutantResult struct {
	m      Mutant
	killed bool
	by     string
	status string
	err    string
}

func runMutant(repo, verif string, m Mutant, all []*Contract, solver *Solver) mutantResult {
	res := mutantResult{m: m}
	path := filepath.Join(repo, m.File)
	data, err := os.ReadFile(path)
	if err != nil {
		res.err = err.Error()
		return res
	}
	src := string(data)
	if strings.Count(src, m.Old) != 1 {
		res.err = fmt.Sprintf("pattern occurs %d times in %s", strings.Count(src, m.Old), m.File)
		return res
	}
	mutated := strings.Replace(src, m.Old, m.New, 1)
	// effect obligations: load the whole module with the mutation and run goeff
	isEff := false
	for _, e := range m.Expect {
		if strings.Contains(e, "/effect:") || strings.Contains(e, "/registration@") {
			isEff = true
		}
	}
	if isEff {
		ov := fragOverlayWith(repo, all, nil, map[string][]byte{path: []byte(mutated)})
		eng, err := loadEngine(repo, verif, []string{"github.com/arnodel/golua/..."}, "verif", ov)
		if err != nil {
			res.err = "mutant does not load: " + err.Error()
			return res
		}
		for _, eo := range runEffects(eng, m.Prop) {
			for _, e := range m.Expect {
				if (eo.Name == e || strings.HasPrefix(eo.Name, e)) && !eo.OK {
					res.killed, res.by, res.status = true, eo.Name, eo.Witness
					return res
				}
			}
		}
		return res
	}
	// which functions to verify
	var keys []string
	pkgs := map[string]bool{}
	for _, ct := range all {
		k := ct.PkgPath + "." + ct.Key
		for _, e := range m.Expect {
			if strings.HasPrefix(e, k+"/") {
				keys = append(keys, k)
				pkgs[ct.PkgPath] = true
			}
		}
	}
	if len(keys) == 0 {
		res.err = "no contract matches the expected obligations"
		return res
	}
	var pats []string
	for p := range pkgs {
		pats = append(pats, p)
	}
	sort.Strings(pats)
	ov := fragOverlayWith(repo, all, pats, map[string][]byte{path: []byte(mutated)})
	eng, err := loadEngine(repo, verif, pats, "verif", ov)
	if err != nil {
		res.err = "mutant does not load: " + err.Error()
		return res
	}
	done := map[string]bool{}
	for _, k := range keys {
		if done[k] {
			continue
		}
		done[k] = true
		ct := eng.contracts[k]
		if ct == nil {
			continue
		}
		fv := eng.verifyFunc(ct)
		if fv.Err != "" {
			for _, e := range m.Expect {
				if e == k+"/subset" || e == k+"/attach" {
					res.killed, res.by, res.status = true, e, fv.Err
					return res
				}
			}
			res.err = fv.Err
			continue
		}
		for _, o := range fv.Obls {
			name := k + "/" + o.Name
			match := false
			for _, e := range m.Expect {
				if name == e || strings.HasPrefix(name, e) {
					match = true
				}
			}
			if !match {
				continue
			}
			r := solver.solve(fv, o, eng)
			ok := (o.Cover && r.Status == "sat") || (!o.Cover && r.Status == "unsat")
			if !ok {
				res.killed, res.by, res.status = true, name, r.Status
				return res
			}
		}
	}
	return res
}

func runSelftest(repo, verif, prop, tier string) int {
	ms, err := loadMutants(verif)
	if err != nil {
		fmt.Fprintln(os.Stderr, err)
		return 2
	}
	_, all, err := loadContracts(repo, "github.com/arnodel/golua")
	if err != nil {
		fmt.Fprintln(os.Stderr, err)
		return 2
	}
	solver, err := newSolver(30, false, 12)
	if err != nil {
		fmt.Fprintln(os.Stderr, err)
		return 2
	}
	defer solver.close()
	var sel []Mutant
	for _, m := range ms {
		if prop == "" || m.Prop == prop {
			sel = append(sel, m)
		}
	}
	results := make([]mutantResult, len(sel))
	sem := make(chan struct{}, 5)
	var wg sync.WaitGroup
	for i, m := range sel {
		wg.Add(1)
		go func(i int, m Mutant) {
			defer wg.Done()
			sem <- struct{}{}
			defer func() { <-sem }()
			results[i] = runMutant(repo, verif, m, all, solver)
		}(i, m)
	}
	wg.Wait()
	killed := 0
	for _, r := range results {
		switch {
		case r.killed:
			killed++
			fmt.Printf("KILLED   %-34s by %s (%s)\n", r.m.ID, r.by, truncate(r.status, 80))
		case r.err != "":
			fmt.Printf("ERROR    %-34s %s\n", r.m.ID, r.err)
		default:
			fmt.Printf("SURVIVED %-34s expected one of %v to fail\n", r.m.ID, r.m.Expect)
		}
	}
	fmt.Printf("selftest: %d/%d mutants killed\n", killed, len(sel))
	if killed != len(sel) {
		return 1
	}
	return 0
}
