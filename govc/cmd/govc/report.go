package main

import (
	osexec "os/exec"
	"bufio"
	"encoding/json"
	"fmt"
	"os"
	"path/filepath"
	"sort"
	"strconv"
	"strings"
	"sync"
	"time"
)

type OblReport struct {
	Name    string `json:"name"`
	Func    string `json:"func"`
	Kind    string `json:"kind"`
	Desc    string `json:"goal,omitempty"`
	Status  string `json:"result"`
	Solver  string `json:"solver"`
	Ms      int64  `json:"ms"`
	Pos     string `json:"pos,omitempty"`
	Claimed bool   `json:"claimed"`
	Known   bool   `json:"known_finding,omitempty"`
	res     *SolveResult
	fv      *FuncVC
	o       *Obl
}

type Claimed struct {
	funcs map[string]bool
	skips map[string]string
}

func loadClaimed(verif, prop string) *Claimed {
	cl := &Claimed{funcs: map[string]bool{}, skips: map[string]string{}}
	f, err := os.Open(filepath.Join(verif, "claimed", prop+".txt"))
	if err != nil {
		return cl
	}
	defer f.Close()
	sc := bufio.NewScanner(f)
	for sc.Scan() {
		l := strings.TrimSpace(sc.Text())
		if l == "" || strings.HasPrefix(l, "#") {
			continue
		}
		reason := ""
		if i := strings.Index(l, " # "); i >= 0 {
			reason = strings.TrimSpace(l[i+3:])
			l = strings.TrimSpace(l[:i])
		}
		parts := strings.SplitN(l, " ", 2)
		if len(parts) != 2 {
			continue
		}
		switch parts[0] {
		case "func":
			cl.funcs[strings.TrimSpace(parts[1])] = true
		case "skip":
			cl.skips[strings.TrimSpace(parts[1])] = reason
		}
	}
	return cl
}

type Finding struct {
	Property   string `json:"property"`
	Obligation string `json:"obligation"`
	Status     string `json:"status"` // open | fixed
	What       string `json:"what"`
	Witness    string `json:"witness,omitempty"`
	Class      string `json:"class,omitempty"` // spec expression over the function's parameters delimiting the known failing inputs
	Commit     string `json:"commit,omitempty"`
	Confirmed  string `json:"confirmed,omitempty"`
	Sites      []string `json:"sites,omitempty"` // effect findings: every witness item must contain one of these
}

func loadFindings(verif string) []Finding {
	var out []Finding
	f, err := os.Open(filepath.Join(verif, "known_findings.jsonl"))
	if err != nil {
		return out
	}
	defer f.Close()
	sc := bufio.NewScanner(f)
	sc.Buffer(make([]byte, 1<<20), 1<<20)
	for sc.Scan() {
		l := strings.TrimSpace(sc.Text())
		if l == "" || strings.HasPrefix(l, "#") {
			continue
		}
		var fd Finding
		if json.Unmarshal([]byte(l), &fd) == nil {
			out = append(out, fd)
		}
	}
	return out
}

func runCheck(repo, verif, prop, tier string, update bool) int {
	start := time.Now()
	seed, _ := strconv.Atoi(os.Getenv("VERIF_SEED"))
	_, all, err := loadContracts(repo, "github.com/arnodel/golua")
	if err != nil {
		fmt.Fprintln(os.Stderr, "govc: cannot load contracts:", err)
		return 2
	}
	pats := patternsFor(all, prop)
	if effectProps[prop] {
		pats = []string{"github.com/arnodel/golua/..."}
	}
	if len(pats) == 0 {
		fmt.Fprintln(os.Stderr, "govc: no contracts for property", prop)
		return 2
	}
	claimed := loadClaimed(verif, prop)
	findings := loadFindings(verif)
	eng, err := loadEngine(repo, verif, pats, "verif", fragOverlay(repo, all, pats))
	if err != nil {
		// the tree does not load: every claimed function is unattached
		fmt.Fprintln(os.Stderr, "govc: cannot load /repo:", err)
		return 2
	}
	loadS := time.Since(start).Seconds()
	var cts []*Contract
	altBuilds := map[string][]*Contract{}
	for _, c := range eng.all {
		if c.hasProp(prop) && !c.Trusted && !c.EffOnly {
			if c.Build != "" && !strings.HasPrefix(c.Build, "!") {
				altBuilds[c.Build] = append(altBuilds[c.Build], c)
				continue
			}
			cts = append(cts, c)
		}
	}
	// 1. generate VCs (parallel per function)
	fvs := make([]*FuncVC, len(cts))
	var wg sync.WaitGroup
	gsem := make(chan struct{}, 8)
	for i, ct := range cts {
		wg.Add(1)
		go func(i int, ct *Contract) {
			defer wg.Done()
			gsem <- struct{}{}
			defer func() { <-gsem }()
			fvs[i] = eng.verifyFunc(ct)
		}(i, ct)
	}
	wg.Wait()
	// alternative build configurations (build tags): the same check against the other implementation
	var builds []string
	for b := range altBuilds {
		builds = append(builds, b)
	}
	sort.Strings(builds)
	for _, b := range builds {
		e2, err := loadEngine(repo, verif, pats, "verif,"+b, fragOverlay(repo, all, pats))
		if err != nil {
			fmt.Fprintln(os.Stderr, "govc: cannot load /repo with tag", b+":", err)
			return 2
		}
		for _, ct := range altBuilds[b] {
			c2 := e2.contracts[ct.PkgPath+"."+ct.Key]
			if c2 == nil {
				c2 = ct
			}
			fv := e2.verifyFunc(c2)
			fvs = append(fvs, fv)
		}
	}
	genS := time.Since(start).Seconds() - loadS
	timeout := 30
	thorough := tier == "thorough"
	if thorough {
		timeout = 120
	}
	solver, err := newSolver(timeout, thorough, 14)
	if err != nil {
		fmt.Fprintln(os.Stderr, err)
		return 2
	}
	defer solver.close()
	// 2. solve
	var reports []*OblReport
	var mu sync.Mutex
	for _, fv := range fvs {
		for _, o := range fv.Obls {
			r := &OblReport{Name: fv.Key + "/" + o.Name, Func: fv.Key, Kind: o.Kind, Desc: o.Desc, fv: fv, o: o}
			if o.Pos.IsValid() {
				r.Pos = fmt.Sprintf("%s:%d", strings.TrimPrefix(o.Pos.Filename, repo+"/"), o.Pos.Line)
			}
			reports = append(reports, r)
		}
	}
	for _, r := range reports {
		wg.Add(1)
		go func(r *OblReport) {
			defer wg.Done()
			res := solver.solve(r.fv, r.o, eng)
			mu.Lock()
			r.res = res
			r.Status, r.Solver, r.Ms = res.Status, res.Solver, res.Ms
			mu.Unlock()
		}(r)
	}
	wg.Wait()
	// 2b. an obligation of a claimed function that no solver decided (timeout /
	// unknown: typically machine load) is retried with few queries in parallel
	// and a much longer limit before it may be reported; a `sat` answer is final.
	{
		rsolver, err := newSolver(timeout*4, false, 12)
		if err == nil {
			rsolver.firstS = 1
			rsolver.wide = true
			for _, r := range reports {
				if r.Status == "sat" || r.Status == "unsat" || r.fv.Err != "" || !claimed.funcs[r.Func] || r.o.Cover {
					continue // (vacuity guards are best effort: an undecided one is recorded, not retried)
				}
				if _, skipped := claimed.skips[r.Name]; skipped {
					continue
				}
				wg.Add(1)
				go func(r *OblReport) {
					defer wg.Done()
					res := rsolver.solve(r.fv, r.o, eng)
					mu.Lock()
					res.Retries += 10
					r.res = res
					r.Status, r.Solver, r.Ms = res.Status, res.Solver, res.Ms
					mu.Unlock()
				}(r)
			}
			wg.Wait()
			rsolver.close()
		}
	}
	// 3. classify
	exit := 0
	var violations, known []string
	var effReports []*OblReport
	discharged, nclaimed := 0, 0
	undecided := []map[string]string{}
	perSolver := map[string]int{}
	solverMs := map[string]int64{}
	findingFor := func(name string) *Finding {
		for i := range findings {
			if findings[i].Property == prop && findings[i].Obligation == name && findings[i].Status == "open" {
				return &findings[i]
			}
		}
		return nil
	}
	os.MkdirAll(filepath.Join(verif, "replays", prop), 0o755)
	var updLines []string
	for _, fv := range fvs {
		fclaimed := claimed.funcs[fv.Key]
		if fv.Err != "" {
			if fclaimed {
				kind := "subset"
				if fv.Missing {
					kind = "attach"
				}
				name := fmt.Sprintf("%s/%s", fv.Key, kind)
				if fd := findingFor(name); fd != nil {
					known = append(known, fmt.Sprintf("KNOWN-FINDING: property=%s %s: %s", prop, name, fd.What))
				} else {
					path := writeReplay(verif, prop, name, map[string]interface{}{"obligation": name, "error": fv.Err, "kind": kind})
					violations = append(violations, fmt.Sprintf("VIOLATION property=%s replay=%s obligation=%s (%s) no-failing-input-found", prop, path, name, fv.Err))
					exit = 1
				}
			}
			undecided = append(undecided, map[string]string{"name": fv.Key, "reason": fv.Err})
			if update {
				updLines = append(updLines, fmt.Sprintf("# not claimed: %s: %s", fv.Key, fv.Err))
			}
			continue
		}
		if update {
			updLines = append(updLines, "func "+fv.Key)
		}
	}
	for _, r := range reports {
		if r.fv.Err != "" {
			continue
		}
		ok := (r.o.Cover && r.Status == "sat") || (!r.o.Cover && r.Status == "unsat")
		_, skipped := claimed.skips[r.Name]
		r.Claimed = claimed.funcs[r.Func] && !skipped
		if ok {
			perSolver[r.Solver]++
			solverMs[r.Solver] += r.Ms
			if r.Claimed {
				nclaimed++
				discharged++
			}
			continue
		}
		if update {
			updLines = append(updLines, fmt.Sprintf("skip %s # %s on reference tree", r.Name, r.Status))
		}
		if fd := findingFor(r.Name); fd != nil {
			// known finding: the obligation must still hold outside the recorded class
			r.Known = true
			okOutside := true
			detail := ""
			if fd.Class != "" {
				okOutside, detail = checkOutsideClass(eng, solver, r, fd)
			}
			if okOutside {
				known = append(known, fmt.Sprintf("KNOWN-FINDING: property=%s %s: %s", prop, r.Name, fd.What))
				if fd.Class != "" && r.Claimed {
					nclaimed++
					discharged++
				}
				continue
			}
			path := writeReplay(verif, prop, r.Name, replayRecord(eng, r, "fails outside the recorded known-finding class: "+detail))
			violations = append(violations, fmt.Sprintf("VIOLATION property=%s replay=%s obligation=%s (fails outside known finding class) no-failing-input-found", prop, path, r.Name))
			exit = 1
			continue
		}
		if !r.Claimed {
			undecided = append(undecided, map[string]string{"name": r.Name, "reason": r.Status, "pos": r.Pos})
			continue
		}
		if r.o.Cover && r.Status != "unsat" {
			// vacuity guard undecided (no solver produced a model in time): this says
			// nothing about the property; recorded, not reported as a violation
			undecided = append(undecided, map[string]string{"name": r.Name, "reason": "cover query undecided: " + r.Status})
			continue
		}
		nclaimed++
		// claimed obligation failed: violation
		rec := replayRecord(eng, r, "")
		suffix := ""
		if r.Status == "sat" && !r.o.Cover {
			rp := tryReplay(eng, r, rec)
			switch rp {
			case "confirmed":
			case "engine-mismatch":
				fmt.Printf("ENGINE-MISMATCH obligation=%s: real code disagrees with the engine's model; not reported as a violation\n", r.Name)
				path := writeReplay(verif, prop, r.Name, rec)
				fmt.Printf("  details: %s\n", path)
				if exit == 0 {
					exit = 2
				}
				continue
			default:
				suffix = " no-failing-input-found"
			}
		} else {
			suffix = " no-failing-input-found"
		}
		path := writeReplay(verif, prop, r.Name, rec)
		violations = append(violations, fmt.Sprintf("VIOLATION property=%s replay=%s obligation=%s result=%s%s", prop, path, r.Name, r.Status, suffix))
		exit = 1
	}
	// effect / frame obligations (goeff)
	var effs []*EffObl
	if effectProps[prop] {
		effs = runEffects(eng, prop)
		for _, eo := range effs {
			name := eo.Name
			r := &OblReport{Name: name, Func: name, Kind: eo.Kind, Desc: eo.Desc, Solver: "frame", Pos: eo.Pos, Claimed: true}
			if eo.Undecided != "" {
				_, skipped := claimed.skips[name]
				if skipped || update {
					r.Claimed, r.Status = false, "unknown"
					undecided = append(undecided, map[string]string{"name": name, "reason": eo.Undecided})
					updLines = append(updLines, fmt.Sprintf("skip %s # undecided on reference tree: %s", name, eo.Undecided))
					effReports = append(effReports, r)
					continue
				}
				eo.Witness = "no longer decidable (was decided on the reference tree): " + eo.Undecided
			}
			if eo.OK {
				r.Status = "unsat"
				if eo.Kind == "cover" {
					r.Status = "sat"
				}
				perSolver["frame"]++
				nclaimed++
				discharged++
				effReports = append(effReports, r)
				continue
			}
			r.Status = "sat"
			if eo.Kind == "cover" {
				r.Status = "unsat"
			}
			effReports = append(effReports, r)
			if fd := findingFor(name); fd != nil && witnessWithin(eo.Witness, fd.Sites) {
				r.Known = true
				known = append(known, fmt.Sprintf("KNOWN-FINDING: property=%s %s: %s", prop, name, fd.What))
				continue
			}
			nclaimed++
			path := writeReplay(verif, prop, name, map[string]interface{}{"obligation": name, "kind": eo.Kind, "goal": eo.Desc, "result": "violated", "solver": "frame (effect checker over go/ssa)", "position": eo.Pos, "witness": eo.Witness,
				"solver_output": "effect obligation violated: " + eo.Witness})
			violations = append(violations, fmt.Sprintf("VIOLATION property=%s replay=%s obligation=%s (%s) no-failing-input-found", prop, path, name, truncate(eo.Witness, 300)))
			exit = 1
		}
	}
	if len(reports)+len(effReports) == 0 {
		fmt.Printf("VIOLATION property=%s replay=%s no obligations generated no-failing-input-found\n", prop, writeReplay(verif, prop, "no-obligations", map[string]interface{}{"error": "zero obligations"}))
		exit = 1
	}
	// claimed functions that no longer have a contract / were not generated
	seen := map[string]bool{}
	for _, fv := range fvs {
		seen[fv.Key] = true
	}
	for k := range claimed.funcs {
		if !seen[k] {
			path := writeReplay(verif, prop, k+"/attach", map[string]interface{}{"obligation": k + "/attach", "error": "claimed function has no contract in /repo"})
			violations = append(violations, fmt.Sprintf("VIOLATION property=%s replay=%s obligation=%s/attach no-failing-input-found", prop, path, k))
			exit = 1
		}
	}
	sort.Strings(violations)
	sort.Strings(known)
	for _, l := range known {
		fmt.Println(l)
	}
	for _, l := range violations {
		fmt.Println(l)
	}
	if update {
		os.MkdirAll(filepath.Join(verif, "claimed"), 0o755)
		sort.Strings(updLines)
		os.WriteFile(filepath.Join(verif, "claimed", prop+".txt"), []byte("# obligations claimed for "+prop+" (generated with --update-claimed on the reference tree, then reviewed)\n"+strings.Join(updLines, "\n")+"\n"), 0o644)
	}
	// thorough tier: besides longer limits and second-solver agreement, re-validate the
	// checker itself against the must-fail corpus of this property (each entry is a
	// property-breaking edit with the obligation that has to fail); a survivor means the
	// check has lost strength and is printed, it is not a violation of the property
	thoroughExtras = nil
	if thorough && !update {
		if out, err := osexec.Command(os.Args[0], "selftest", "--property", prop, "--repo", repo, "--verif", verif).CombinedOutput(); err == nil || len(out) > 0 {
			killed, total := 0, 0
			var survivors, errs []string
			for _, l := range strings.Split(string(out), "\n") {
				switch {
				case strings.HasPrefix(l, "KILLED"):
					killed++
					total++
				case strings.HasPrefix(l, "SURVIVED"):
					total++
					if f := strings.Fields(l); len(f) > 1 {
						survivors = append(survivors, f[1])
					}
				case strings.HasPrefix(l, "ERROR"):
					total++
					if f := strings.Fields(l); len(f) > 1 {
						errs = append(errs, f[1])
					}
				}
			}
			thoroughExtras = map[string]interface{}{"must_fail_corpus": map[string]interface{}{"total": total, "killed": killed, "survivors": survivors, "not_applicable_on_this_tree": errs,
				"meaning": "property-breaking edits of /verif/mutants applied in memory, each expected to fail a named obligation"}}
			for _, sv := range survivors {
				fmt.Printf("SELFTEST-SURVIVOR property=%s mutant=%s (the check no longer detects a change it used to detect)\n", prop, sv)
			}
			fmt.Printf("govc: must-fail corpus for %s: %d/%d killed\n", prop, killed, total)
		}
	}
	wall := time.Since(start).Seconds()
	reports = append(reports, effReports...)
	writeEvidence(verif, prop, tier, seed, eng, fvs, reports, nclaimed, discharged, undecided, known, len(violations), perSolver, solverMs, wall, loadS, genS)
	fmt.Printf("govc: property %s tier %s: %d obligations generated, %d claimed, %d discharged, %d undecided, %d known findings, %d violations (%.1fs)\n",
		prop, tier, len(reports), nclaimed, discharged, len(undecided), len(known), len(violations), wall)
	return exit
}

func writeReplay(verif, prop, name string, rec map[string]interface{}) string {
	dir := filepath.Join(verif, "replays", prop)
	os.MkdirAll(dir, 0o755)
	fn := sanitize(name)
	if len(fn) > 150 {
		fn = fn[len(fn)-150:]
	}
	path := filepath.Join(dir, fn+".json")
	rec["property"] = prop
	data, _ := json.MarshalIndent(rec, "", " ")
	os.WriteFile(path, data, 0o644)
	return path
}

func replayRecord(eng *Engine, r *OblReport, note string) map[string]interface{} {
	rec := map[string]interface{}{
		"obligation": r.Name, "kind": r.Kind, "goal": r.Desc, "result": r.Status, "solver": r.Solver,
		"position": r.Pos, "solver_output": truncate(r.res.Output, 4000), "mode": r.fv.Ctx.mode.String(),
	}
	if note != "" {
		rec["note"] = note
	}
	if r.res.Model != nil {
		inputs := map[string]string{}
		for _, p := range r.fv.Params {
			if v, ok := r.res.Model[p[1]]; ok {
				inputs[p[0]] = v
			}
		}
		rec["inputs"] = inputs
		pred := map[string]string{}
		for _, p := range r.fv.Results {
			if v, ok := r.res.Model[p[1]]; ok {
				pred[p[0]] = v
			}
		}
		rec["engine_predicted"] = pred
	}
	rec["smt_script"] = truncate(r.res.Script, 200000)
	return rec
}

func truncate(s string, n int) string {
	if len(s) > n {
		return s[:n] + "...[truncated]"
	}
	return s
}

// checkOutsideClass re-checks a known-finding obligation with the recorded
// class of failing inputs excluded: it must then be discharged.
func checkOutsideClass(eng *Engine, solver *Solver, r *OblReport, fd *Finding) (bool, string) {
	e, err := parseSpecExpr(fd.Class)
	if err != nil {
		return false, "bad class expression: " + err.Error()
	}
	fv := r.fv
	c := fv.Ctx
	env := &SpecEnv{c: c, vars: map[string]Val{}, pkg: eng.pkgByPath(fv.Contract.PkgPath)}
	st := &State{reach: "true", heaps: map[string]string{}, ghost: map[string]string{}, alloc: "0"}
	env.cur, env.old = st, st
	for i, p := range fv.Params {
		if fv.ParamT[i] == mathIntT {
			env.vars[p[0]] = Val{T: mathIntT, S: p[1]}
		} else {
			env.vars[p[0]] = c.mkVal(fv.ParamT[i], p[1])
		}
	}
	npre := len(c.pre)
	nobl := len(c.obls)
	cls := c.specBool(env, e)
	extraDefs := append([]string(nil), c.pre[npre:]...)
	c.pre = c.pre[:npre]
	c.obls = c.obls[:nobl]
	if len(env.errs) > 0 {
		return false, "class expression: " + strings.Join(env.errs, "; ")
	}
	o2 := *r.o
	o2.Guard = and(r.o.Guard, not(cls))
	// class definitions may only use parameters, so placing them at the end of the visible prelude is fine
	saved := c.pre
	c.pre = append(append([]string(nil), c.pre[:r.o.PreLen]...), extraDefs...)
	o2.PreLen = len(c.pre)
	res := solver.solve(fv, &o2, eng)
	c.pre = saved
	if res.Status == "unsat" {
		return true, ""
	}
	return false, res.Status
}

func writeEvidence(verif, prop, tier string, seed int, eng *Engine, fvs []*FuncVC, reports []*OblReport, nclaimed, discharged int,
	undecided []map[string]string, known []string, violations int, perSolver map[string]int, solverMs map[string]int64, wall, loadS, genS float64) {
	funcs := []string{}
	inlined := map[string]bool{}
	externals := map[string]bool{}
	trusted := map[string]bool{}
	notes := map[string]bool{}
	specs := map[string]bool{}
	for _, fv := range fvs {
		funcs = append(funcs, fv.Key)
		if fv.Ctx == nil {
			continue
		}
		for k := range fv.Ctx.inlined {
			inlined[k] = true
		}
		for k := range fv.Ctx.externals {
			externals[k] = true
		}
		for k := range fv.Ctx.trusted {
			trusted[k] = true
		}
		for k := range fv.Ctx.notes {
			notes[k] = true
		}
		for k := range fv.Ctx.specUsed {
			specs["spec."+k] = true
		}
	}
	for _, ct := range eng.all {
		if ct.hasProp(prop) && ct.Trusted {
			trusted["trusted contract (assumed, not verified): "+ct.PkgPath+"."+ct.Key] = true
		}
	}
	sort.Strings(funcs)
	var samples []map[string]interface{}
	step := 1
	if len(reports) > 14 {
		step = len(reports) / 14
	}
	for i := 0; i < len(reports); i += step {
		r := reports[i]
		samples = append(samples, map[string]interface{}{"obligation": r.Name, "kind": r.Kind, "goal": r.Desc, "result": r.Status, "solver": r.Solver, "ms": r.Ms, "claimed": r.Claimed, "pos": r.Pos})
	}
	tb := []string{
		"govc VC generator (go/ssa -> SMT-LIB) and its model of Go semantics (DESIGN §4); mitigated by replay on the real code and the must-fail corpus",
		"SMT solvers z3 4.8.12, z3 5.1.0 (z3-new), cvc5 1.0",
		"spec functions in /verif/spec/*.smt2 used: " + strings.Join(sortedKeys(specs), ", "),
		"target linux/amd64: 64-bit int/uint/uintptr; float ops round-to-nearest-even",
	}
	tb = append(tb, sortedKeys(trusted)...)
	assumptions := append([]string{}, sortedKeys(notes)...)
	for _, k := range sortedKeys(externals) {
		assumptions = append(assumptions, "external call havocked without contract (assumed not to panic): "+k)
	}
	cov := map[string]interface{}{
		"obligations":              nclaimed,
		"discharged":               discharged,
		"obligations_generated":    len(reports),
		"checker_cmd":              fmt.Sprintf("/verif/bin/govc check --property %s --tier %s", prop, tier),
		"trusted_base":             tb,
		"functions_under_contract": funcs,
		"inlined_leaf_functions":   sortedKeys(inlined),
		"undecided":                undecided,
		"known_findings":           known,
		"samples":                  samples,
		"per_backend_discharged":   perSolver,
		"per_backend_solver_ms":    solverMs,
		"load_s":                   loadS,
		"vcgen_s":                  genS,
		"explanation":              "each obligation is one SMT query (precondition ∧ path ∧ ¬goal) generated from the current source of the function under contract; unsat = discharged for all inputs",
	}
	var frags []map[string]interface{}
	for k, fi := range fragReport {
		frags = append(frags, map[string]interface{}{"fragment": k, "file": strings.TrimPrefix(fi.File, eng.repo+"/"), "lines": fmt.Sprintf("%d-%d", fi.From, fi.To), "free_variables_as_parameters": fi.Params,
			"exit_rewrites": fi.Rewrite, "dropped": "the surrounding interpreter loop and the other cases; returns rewritten to (false, results...), falling off the end / continue to (true, zero results)", "error": fi.Err})
	}
	if len(frags) > 0 {
		cov["fragments"] = frags
		if prop == "C04" {
			// registered library functions deliberately left out of the no-panic sweep, with the reason
			if data, err := os.ReadFile(filepath.Join(verif, "tools", "sweep_exclude.json")); err == nil {
				var ex map[string]string
				if json.Unmarshal(data, &ex) == nil {
					cov["sweep_not_covered"] = ex
				}
			}
		}
	}
	for k, v := range thoroughExtras {
		cov[k] = v
	}
	ev := map[string]interface{}{
		"property_id": prop, "tier": tier, "seed": seed, "level": "proof", "coverage": cov,
		"assumptions": assumptions, "wall_s": wall, "violations": violations,
	}
	os.MkdirAll(filepath.Join(verif, "evidence"), 0o755)
	data, _ := json.MarshalIndent(ev, "", " ")
	os.WriteFile(filepath.Join(verif, "evidence", prop+".json"), data, 0o644)
}

var thoroughExtras map[string]interface{}

var effectProps = map[string]bool{"C08": true, "C20": true, "C05": true, "C06": true, "C07": true, "C04": true, "C03": true, "C10": true, "C09": true}

func libScope(eng *Engine) func(string) bool {
	return func(p string) bool {
		rel := strings.TrimPrefix(p, eng.modPath)
		switch {
		case rel == "", strings.HasPrefix(rel, "/cmd"), strings.HasPrefix(rel, "/examples"), strings.HasPrefix(rel, "/luatesting"):
			return false // command-line programs, examples and test helpers are not part of an embedded runtime
		}
		return true
	}
}

func runEffects(eng *Engine, prop string) []*EffObl {
	g := newEffGraph(eng)
	switch prop {
	case "C08":
		return g.ioSafeObligations()
	case "C20":
		return g.globalWriteObligations(libScope(eng))
	case "C05":
		return append(append(append(g.recoverObligations(libScope(eng)), g.deadContextObligations()...), g.meterObligations(libScope(eng))...), g.goroutineEscapeObligations(libScope(eng))...)
	case "C06", "C07":
		// a memory or time kill is a ContextTerminationError like a CPU kill: the same
		// two structural obligations decide that nothing intercepts it and that no Lua
		// code of the context runs once its status has left `live`
		return append(g.recoverObligations(libScope(eng)), g.deadContextObligations()...)
	case "C03":
		return g.writesOnlyObligations("C03")
	case "C10":
		return g.repanicCleanObligations("C10")
	case "C09":
		return g.firstCallObligations("C09")
	case "C04":
		return append(append(append(g.compilePanicObligations(), g.arityObligations()...), g.stableObligations()...), g.goroutineEscapeObligations(libScope(eng))...)
	}
	return nil
}

// witnessWithin: every item of an effect witness is one of the recorded sites
// of the known finding (a new write in the same function is a new violation).
func witnessWithin(witness string, sites []string) bool {
	if len(sites) == 0 {
		return true
	}
	for _, item := range strings.Split(witness, "; ") {
		ok := false
		for _, s := range sites {
			if strings.Contains(item, s) {
				ok = true
			}
		}
		if !ok {
			return false
		}
	}
	return true
}
