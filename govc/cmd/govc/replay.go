package main

// Replay of solver counterexamples on the real code: an in-package test is
// injected with `go test -overlay` (nothing is written to /repo), the real
// function is called on the model's inputs and its results are compared with
// the results the engine's encoding predicted for the same inputs.

import (
	"encoding/json"
	"fmt"
	"go/types"
	"math/big"
	"os"
	"os/exec"
	"path/filepath"
	"strconv"
	"strings"
	"time"
)

// goValue converts a model value of Go type t to a Go expression.
func goValue(eng *Engine, sorts *Sorts, t types.Type, v string, qual string) (string, bool) {
	v = strings.TrimSpace(v)
	if bits, signed, ok := isIntType(t); ok {
		bi, ok := modelInt(v, bits, signed)
		if !ok {
			return "", false
		}
		tn := types.TypeString(t, func(p *types.Package) string { return "" })
		if signed {
			return fmt.Sprintf("%s(vi(%s))", tn, bi.String()), true
		}
		return fmt.Sprintf("%s(vu(%s))", tn, bi.String()), true
	}
	if isFloatType(t) {
		b, ok := modelFloatBits(v)
		if !ok {
			return "", false
		}
		return fmt.Sprintf("math.Float64frombits(0x%016x)", b), true
	}
	if isBoolType(t) {
		if v == "true" || v == "false" {
			return v, true
		}
		return "", false
	}
	if n, ok := t.(*types.Named); ok && n.Obj().Name() == "Value" && n.Obj().Pkg() != nil && strings.HasSuffix(n.Obj().Pkg().Path(), "/runtime") {
		// (mk_T_runtime_Value <scalar> <iface>)
		parts := topSexps(strings.TrimSpace(v[1 : len(v)-1]))
		if len(parts) != 3 {
			return "", false
		}
		sc, ok := modelInt(parts[1], 64, false)
		if !ok {
			return "", false
		}
		ifv := parts[2]
		switch {
		case ifv == "if_nil":
			return "NilValue", true
		case strings.HasPrefix(ifv, "(if_int64"):
			return fmt.Sprintf("IntValue(int64(vu(%s)))", sc.String()), true
		case strings.HasPrefix(ifv, "(if_float64"):
			return fmt.Sprintf("FloatValue(math.Float64frombits(vu(%s)))", sc.String()), true
		case strings.HasPrefix(ifv, "(if_bool"):
			return fmt.Sprintf("BoolValue(vu(%s) != 0)", sc.String()), true
		case strings.HasPrefix(ifv, "(if_string"):
			return `StringValue("s")`, true
		case strings.HasPrefix(ifv, "(if_Pruntime_Table"):
			return "TableValue(NewTable())", true
		}
		return "", false
	}
	return "", false
}

func modelInt(v string, bits int, signed bool) (*big.Int, bool) {
	v = strings.TrimSpace(v)
	bi := new(big.Int)
	switch {
	case strings.HasPrefix(v, "#x"):
		if _, ok := bi.SetString(v[2:], 16); !ok {
			return nil, false
		}
	case strings.HasPrefix(v, "#b"):
		if _, ok := bi.SetString(v[2:], 2); !ok {
			return nil, false
		}
	case strings.HasPrefix(v, "(-"):
		inner := strings.TrimSpace(v[2 : len(v)-1])
		if _, ok := bi.SetString(inner, 10); !ok {
			return nil, false
		}
		bi.Neg(bi)
		return bi, true
	case strings.HasPrefix(v, "(_ bv"):
		f := strings.Fields(v[5 : len(v)-1])
		if _, ok := bi.SetString(f[0], 10); !ok {
			return nil, false
		}
	default:
		if _, ok := bi.SetString(v, 10); !ok {
			return nil, false
		}
		return bi, true
	}
	if signed && bi.Bit(bits-1) == 1 {
		bi.Sub(bi, new(big.Int).Lsh(big.NewInt(1), uint(bits)))
	}
	return bi, true
}

func modelFloatBits(v string) (uint64, bool) {
	v = strings.TrimSpace(v)
	switch {
	case strings.HasPrefix(v, "(fp "):
		parts := topSexps(v[4 : len(v)-1])
		if len(parts) != 3 {
			return 0, false
		}
		s, ok1 := modelInt(parts[0], 1, false)
		e, ok2 := modelInt(parts[1], 11, false)
		m, ok3 := modelInt(parts[2], 52, false)
		if !ok1 || !ok2 || !ok3 {
			return 0, false
		}
		return s.Uint64()<<63 | e.Uint64()<<52 | m.Uint64(), true
	case strings.HasPrefix(v, "(_ +oo"):
		return 0x7ff0000000000000, true
	case strings.HasPrefix(v, "(_ -oo"):
		return 0xfff0000000000000, true
	case strings.HasPrefix(v, "(_ NaN"):
		return 0x7ff8000000000001, true
	case strings.HasPrefix(v, "(_ +zero"):
		return 0, true
	case strings.HasPrefix(v, "(_ -zero"):
		return 0x8000000000000000, true
	}
	return 0, false
}

// canonical renders a model value of type t the way the replay test dumps
// real results.
func canonical(t types.Type, v string) (string, bool) {
	if bits, signed, ok := isIntType(t); ok {
		bi, ok := modelInt(v, bits, signed)
		if !ok {
			return "", false
		}
		if bi.Sign() < 0 {
			bi.Add(bi, new(big.Int).Lsh(big.NewInt(1), uint(bits)))
		}
		return "i:" + bi.Text(16), true
	}
	if isFloatType(t) {
		b, ok := modelFloatBits(v)
		if !ok {
			return "", false
		}
		if b&0x7ff0000000000000 == 0x7ff0000000000000 && b&0xfffffffffffff != 0 {
			return "f:nan", true
		}
		return fmt.Sprintf("f:%x", b), true
	}
	if isBoolType(t) {
		return "b:" + v, true
	}
	if isIfaceType(t) {
		if v == "if_nil" {
			return "iface:nil", true
		}
		return "iface:nonnil", true
	}
	if n, ok := t.(*types.Named); ok && n.Obj().Name() == "Value" {
		parts := topSexps(strings.TrimSpace(v[1 : len(v)-1]))
		if len(parts) != 3 {
			return "", false
		}
		sc, ok := modelInt(parts[1], 64, false)
		if !ok {
			return "", false
		}
		ifv := parts[2]
		kind := "other"
		switch {
		case ifv == "if_nil":
			return "v:nil", true
		case strings.HasPrefix(ifv, "(if_int64"):
			kind = "int"
		case strings.HasPrefix(ifv, "(if_float64"):
			kind = "float"
			b := sc.Uint64()
			if b&0x7ff0000000000000 == 0x7ff0000000000000 && b&0xfffffffffffff != 0 {
				return "v:float:nan", true
			}
		case strings.HasPrefix(ifv, "(if_bool"):
			kind = "bool"
		case strings.HasPrefix(ifv, "(if_string"):
			return "v:string", true
		}
		return fmt.Sprintf("v:%s:%x", kind, sc.Uint64()), true
	}
	return "", false
}

const replayHelpers = `
func vu(x uint64) uint64 { return x }
func vi(x int64) int64 { return x }

func verifDump(x interface{}) string {
	switch v := x.(type) {
	case bool:
		return fmt.Sprintf("b:%v", v)
	case int64:
		return fmt.Sprintf("i:%x", uint64(v))
	case int:
		return fmt.Sprintf("i:%x", uint64(v))
	case uint64:
		return fmt.Sprintf("i:%x", v)
	case uint:
		return fmt.Sprintf("i:%x", uint64(v))
	case uintptr:
		return fmt.Sprintf("i:%x", uint64(v))
	case int32:
		return fmt.Sprintf("i:%x", uint32(v))
	case uint32:
		return fmt.Sprintf("i:%x", v)
	case int16:
		return fmt.Sprintf("i:%x", uint16(v))
	case uint16:
		return fmt.Sprintf("i:%x", v)
	case int8:
		return fmt.Sprintf("i:%x", uint8(v))
	case uint8:
		return fmt.Sprintf("i:%x", v)
	case float64:
		if v != v {
			return "f:nan"
		}
		return fmt.Sprintf("f:%x", math.Float64bits(v))
	case nil:
		return "iface:nil"
	case error:
		return "iface:nonnil"
	}
	rv := reflect.ValueOf(x)
	switch rv.Kind() {
	case reflect.Int, reflect.Int8, reflect.Int16, reflect.Int32, reflect.Int64:
		bits := rv.Type().Bits()
		u := uint64(rv.Int())
		if bits < 64 {
			u &= (1 << uint(bits)) - 1
		}
		return fmt.Sprintf("i:%x", u)
	case reflect.Uint, reflect.Uint8, reflect.Uint16, reflect.Uint32, reflect.Uint64, reflect.Uintptr:
		return fmt.Sprintf("i:%x", rv.Uint())
	case reflect.Bool:
		return fmt.Sprintf("b:%v", rv.Bool())
	}
	return fmt.Sprintf("?:%T", x)
}
`

const replayValueDump = `
func verifDumpValue(v Value) string {
	switch v.iface.(type) {
	case nil:
		return "v:nil"
	case int64:
		return fmt.Sprintf("v:int:%x", v.scalar)
	case float64:
		if f := v.AsFloat(); f != f {
			return "v:float:nan"
		}
		return fmt.Sprintf("v:float:%x", v.scalar)
	case bool:
		return fmt.Sprintf("v:bool:%x", v.scalar)
	case string:
		return "v:string"
	}
	return "v:other:0"
}
`

// tryReplay returns "confirmed", "engine-mismatch" or "none".
func tryReplay(eng *Engine, r *OblReport, rec map[string]interface{}) string {
	fv := r.fv
	if fv.Fn == nil || fv.Contract.IsLemma || fv.Contract.IsFrag || r.res.Model == nil {
		return "none"
	}
	fn := fv.Fn
	pkg := fn.Pkg.Pkg
	var argExprs []string
	for i, p := range fv.Params {
		mv, ok := r.res.Model[p[1]]
		if !ok {
			rec["replay_note"] = "model has no value for " + p[0]
			return "none"
		}
		ge, ok := goValue(eng, fv.Ctx.sorts, fv.ParamT[i], mv, "")
		if !ok {
			ge, ok = goElems(fv, i, r.res.Model)
		}
		if !ok {
			rec["replay_note"] = fmt.Sprintf("input %s of type %s cannot be reconstructed from the model (%s)", p[0], fv.ParamT[i], truncate(mv, 80))
			return "none"
		}
		argExprs = append(argExprs, ge)
	}
	// predicted results
	var predicted []string
	sig := fn.Signature
	panicKind := r.Kind == "rte" || r.Kind == "nopanic"
	for i := 0; i < sig.Results().Len() && !panicKind; i++ {
		if i >= len(fv.Results) {
			rec["replay_note"] = "no predicted result term"
			return "none"
		}
		mv, ok := r.res.Model[fv.Results[i][1]]
		if !ok {
			rec["replay_note"] = "model has no value for result " + fv.Results[i][1]
			return "none"
		}
		cv, ok := canonical(sig.Results().At(i).Type(), mv)
		if !ok {
			rec["replay_note"] = "result type not comparable: " + sig.Results().At(i).Type().String()
			return "none"
		}
		predicted = append(predicted, cv)
	}
	if len(predicted) == 0 && r.Kind != "rte" && r.Kind != "nopanic" {
		rec["replay_note"] = "function has no results to compare"
		return "none"
	}
	call := fn.Name() + "(" + strings.Join(argExprs, ", ") + ")"
	if sig.Recv() != nil {
		call = "(" + argExprs[0] + ")." + fn.Name() + "(" + strings.Join(argExprs[1:], ", ") + ")"
	}
	var lhs []string
	var dumps []string
	for i := 0; i < sig.Results().Len(); i++ {
		lhs = append(lhs, fmt.Sprintf("r%d", i))
		t := sig.Results().At(i).Type()
		if n, ok := t.(*types.Named); ok && n.Obj().Name() == "Value" {
			dumps = append(dumps, fmt.Sprintf("\tfmt.Printf(\"RESULT %d %%s\\n\", verifDumpValue(r%d))", i, i))
		} else {
			dumps = append(dumps, fmt.Sprintf("\tfmt.Printf(\"RESULT %d %%s\\n\", verifDump(r%d))", i, i))
		}
	}
	valueDump := ""
	if strings.HasSuffix(pkg.Path(), "/runtime") {
		valueDump = replayValueDump
	}
	src := fmt.Sprintf(`package %s

import (
	"fmt"
	"math"
	"reflect"
	"testing"
)

var _ = math.Pi
var _ = reflect.TypeOf
%s%s
// Replay of obligation %s
func TestVerifReplay(t *testing.T) {
	defer func() {
		if e := recover(); e != nil {
			fmt.Printf("PANIC %%v\n", e)
		}
	}()
	%s := %s
%s
}
`, pkg.Name(), replayHelpers, valueDump, r.Name, strings.Join(lhs, ", "), call, strings.Join(dumps, "\n"))
	rec["replay_test"] = src
	out, err := runOverlayTest(eng.repo, pkg.Path(), strings.TrimPrefix(pkg.Path(), eng.modPath+"/"), src, "TestVerifReplay")
	rec["replay_output"] = truncate(out, 4000)
	if err != nil && !strings.Contains(out, "RESULT") && !strings.Contains(out, "PANIC") {
		rec["replay_note"] = "replay test did not run: " + err.Error()
		return "none"
	}
	real := map[int]string{}
	for _, l := range strings.Split(out, "\n") {
		if strings.HasPrefix(l, "RESULT ") {
			f := strings.SplitN(l, " ", 3)
			if len(f) == 3 {
				n, _ := strconv.Atoi(f[1])
				real[n] = strings.TrimSpace(f[2])
			}
		}
		if strings.HasPrefix(l, "PANIC ") {
			rec["real_panic"] = l
		}
	}
	rec["real_results"] = real
	rec["predicted_results"] = predicted
	if _, p := rec["real_panic"]; p {
		if r.Kind == "rte" || r.Kind == "nopanic" {
			return "confirmed"
		}
		return "engine-mismatch"
	}
	if panicKind {
		rec["replay_note"] = "the engine predicts a failing run-time check for these inputs but the real function returned normally"
		return "engine-mismatch"
	}
	for i, p := range predicted {
		if real[i] != p {
			rec["replay_note"] = fmt.Sprintf("result %d: real %s, engine predicted %s", i, real[i], p)
			return "engine-mismatch"
		}
	}
	rec["replay"] = "confirmed: the real function returns exactly the results the engine predicted for these inputs, and those results violate the obligation"
	return "confirmed"
}

// runOverlayTest runs an in-package test injected through -overlay.
func runOverlayTest(repo, pkgPath, relDir, src, run string) (string, error) {
	tmp, err := os.MkdirTemp("", "govc-replay")
	if err != nil {
		return "", err
	}
	defer os.RemoveAll(tmp)
	testFile := filepath.Join(tmp, "zz_verif_replay_test.go")
	if err := os.WriteFile(testFile, []byte(src), 0o644); err != nil {
		return "", err
	}
	ov := map[string]map[string]string{"Replace": {filepath.Join(repo, relDir, "zz_verif_replay_test.go"): testFile}}
	data, _ := json.Marshal(ov)
	ovFile := filepath.Join(tmp, "ov.json")
	os.WriteFile(ovFile, data, 0o644)
	cmd := exec.Command("go", "test", "-overlay", ovFile, "-vet=off", "-v", "-count=1", "-timeout", "60s", "-ldflags=-checklinkname=0", "-run", "^"+run+"$", "./"+relDir)
	cmd.Dir = repo
	cmd.Env = append(os.Environ(), "GOFLAGS=-mod=mod", "GOPROXY=off", "GOSUMDB=off", "GOTOOLCHAIN=local", "GOCACHE="+goCacheDir())
	done := make(chan struct{})
	var out []byte
	go func() {
		out, err = cmd.CombinedOutput()
		close(done)
	}()
	select {
	case <-done:
	case <-time.After(180 * time.Second):
		cmd.Process.Kill()
		<-done
	}
	return string(out), err
}

func goCacheDir() string {
	if d := os.Getenv("GOCACHE"); d != "" {
		return d
	}
	home, _ := os.UserCacheDir()
	return filepath.Join(home, "go-build")
}

func runReplayCmd(repo, verif, path string) int {
	data, err := os.ReadFile(path)
	if err != nil {
		fmt.Fprintln(os.Stderr, err)
		return 2
	}
	var rec map[string]interface{}
	if err := json.Unmarshal(data, &rec); err != nil {
		fmt.Fprintln(os.Stderr, err)
		return 2
	}
	fmt.Printf("obligation: %v\nresult: %v (solver %v)\n", rec["obligation"], rec["result"], rec["solver"])
	if in, ok := rec["inputs"]; ok {
		fmt.Printf("inputs: %v\n", in)
	}
	src, ok := rec["replay_test"].(string)
	if !ok {
		fmt.Println("no replayable input recorded for this obligation (no-failing-input-found); solver output:")
		fmt.Println(rec["solver_output"])
		return 1
	}
	obl, _ := rec["obligation"].(string)
	// package path = obligation name up to the last '.' before the function key
	pkgPath := obl
	if i := strings.Index(obl, "/runtime."); i >= 0 {
		pkgPath = obl[:i+len("/runtime")]
	} else if i := strings.LastIndex(strings.SplitN(obl, "/", 2)[0], "."); i >= 0 {
		pkgPath = obl[:i]
	}
	if p, ok := rec["package"].(string); ok {
		pkgPath = p
	}
	rel := strings.TrimPrefix(pkgPath, "github.com/arnodel/golua/")
	out, err := runOverlayTest(repo, pkgPath, rel, src, "TestVerifReplay")
	fmt.Println(out)
	fmt.Printf("engine predicted: %v\n", rec["predicted_results"])
	if err != nil && !strings.Contains(out, "RESULT") {
		return 2
	}
	return 1
}

// goElems rebuilds a string or a slice of basic integers from the model values of
// its length and first elements (longer inputs are not replayed).
func goElems(fv *FuncVC, i int, model map[string]string) (string, bool) {
	terms := fv.ElemTerms[i]
	if len(terms) == 0 {
		return "", false
	}
	get := func(t string) (string, bool) {
		v, ok := model[strings.Join(strings.Fields(t), " ")]
		return v, ok
	}
	lv, ok := get(terms[0])
	if !ok {
		return "", false
	}
	ln, ok := modelInt(lv, 64, true)
	if !ok || ln.Sign() < 0 || ln.Int64() > replayElems {
		return "", false
	}
	n := int(ln.Int64())
	t := fv.ParamT[i]
	if isStringType(t) {
		var bs []string
		for k := 0; k < n; k++ {
			ev, ok := get(terms[1+k])
			if !ok {
				return "", false
			}
			b, ok := modelInt(ev, 8, false)
			if !ok {
				return "", false
			}
			bs = append(bs, fmt.Sprintf("%d", b.Uint64()&0xff))
		}
		return "string([]byte{" + strings.Join(bs, ", ") + "})", true
	}
	sl := t.Underlying().(*types.Slice)
	bits, signed, _ := isIntType(sl.Elem())
	tn := types.TypeString(sl.Elem(), func(p *types.Package) string { return "" })
	var es []string
	for k := 0; k < n; k++ {
		ev, ok := get(terms[1+k])
		if !ok {
			return "", false
		}
		bi, ok := modelInt(ev, bits, signed)
		if !ok {
			return "", false
		}
		if signed {
			es = append(es, fmt.Sprintf("%s(vi(%s))", tn, bi.String()))
		} else {
			es = append(es, fmt.Sprintf("%s(vu(%s))", tn, bi.String()))
		}
	}
	return "[]" + tn + "{" + strings.Join(es, ", ") + "}", true
}
