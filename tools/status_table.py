#!/usr/bin/env python3
"""Regenerates the status table of DESIGN.md 14.1 from evidence/*.json (run after tools/run_all.sh)."""
import json, re, glob, os
rows = []
for f in sorted(glob.glob('/verif/evidence/C*.json')):
    e = json.load(open(f)); c = e['coverage']
    pid = e['property_id']
    claimed = sum(1 for l in open('/verif/claimed/%s.txt' % pid) if l.strip() and not l.startswith('#')) if os.path.exists('/verif/claimed/%s.txt' % pid) else 0
    pb = c.get('per_backend_discharged', {})
    tot = sum(pb.values())
    back = ', '.join('%s %d' % (k, v) for k, v in sorted(pb.items(), key=lambda kv: -kv[1]))
    kf = len(c.get('known_findings') or [])
    und = len(c.get('undecided') or [])
    rows.append('| %s | %d | %d / %d / %d%s | %s | %d s |' % (pid, len(c.get('functions_under_contract') or []), c['obligations_generated'], c['obligations_generated'] - und - kf, tot, (' (+%d known findings)' % kf) if kf else '', back, round(e['wall_s'])))
table = '| id | functions under contract | obligations generated / claimed / discharged | back ends | wall |\n|---|---|---|---|---|\n' + '\n'.join(rows)
p = '/verif/DESIGN.md'
s = open(p).read()
s2 = re.sub(r'\| id \| functions under contract \|.*?\n\n', table + '\n\n', s, count=1, flags=re.S)
open(p, 'w').write(s2)
print(table)
