#!/usr/bin/env python3
"""Regenerates /verif/MANIFEST.json from the table below (single source of truth for the
claims; run after adding a property check)."""
import json, subprocess

SMT = "contract-based deductive verification: VCs generated from go/ssa of the real functions (contracts in comment-only verif_contracts.go files), discharged by SMT (z3 4.8/5.1, cvc5)"
EFF = SMT + "; frame/effect obligations over the go/ssa call graph discharged structurally (goeff)"

CLAIMS = {
 "C02": dict(tech=SMT, ref="DESIGN.md §8 C02",
  text="Arithmetic kernel of C02: for every int64/float64 operand pair, Unm/Add/Sub/Mul/Div/Idiv/Mod/Pow dispatch, floor division and modulo (against the mathematical definition), mixed int/float comparison (against an exact real-order specification), float-to-int conversion and the integer paths of the bitwise operators satisfy postconditions transcribed from the Lua manual; order laws (trichotomy, le = lt or eq) are lemmas over the specification; tonumber(s, base) only yields an integer when every character is a digit of that base. Numeral strings (strconv) and the math library wrappers are not decided.",
  note="Trusted: govc's model of Go semantics (amd64: int64(float) out of range = minint), the SMT solvers, the spec functions in /verif/spec, math.Mod/math.Pow (assumed), NaN payloads not distinguished, unsafe bit casts in FloatValue/AsFloat modelled as IEEE bit reinterpretation. Not covered: strconv-based numeral conversion, lib/mathlib wrappers, string arithmetic coercion."),
 "C07": dict(tech=SMT, ref="DESIGN.md §8 C07",
  text="Context-manager kernel of C07, for all 64-bit limit/usage values (0 = unlimited, values next to 2^64): PushContext gives the child no more hard budget than the parent has left, soft <= hard, flags only grow, counters start at zero and the parent is saved unchanged; PopContext restores exactly the saved parent with the child's CPU and memory added (saturating), returns an object describing the child with 'live' turned into 'done', and if charging the parent terminates it the parent is already current; RequireCPU/RequireMem never leave a live context at or above its limit and never wrap; Due is exactly 'soft stop or a soft limit reached'; Remove/Merge/Dominates/atLimit/smallerLimit implement the limit order. The induction over nesting depth and the Lua-level wiring (callcontext, pcall) are not machine-checked.",
  note="Trusted: govc's model of Go, the SMT solvers, spec functions limLe/atLimit/satAdd; assumed contracts: now() (no effect), luagc pool methods and releaseResources (do not touch the context manager), ComplianceFlags.Names. Not covered: Thread.CallContext status reporting, runtimelib argument validation, the noquotas build."),
 "C08": dict(tech=EFF, ref="DESIGN.md §8 C08",
  text="Gate: GoCont.RunInThread is proved to return an error without calling the Go function whenever the context requires a flag the function has not declared, and the call site c.f(t,c) carries the proved precondition 'required flags are all declared' (and bounded Go call depth); CheckRequiredFlags is exact; SolemnlyDeclareCompliance only adds flags; PushContext never drops required flags. Reachability: every function registered with ComplyIoSafe (registration sites extracted from the current source on each run) reaches, through static calls, interface dispatch inside the module, function values and closures, no OS primitive (file system, process, plugin, network table) except through the four safeio guard functions, each of which is proved to reach its primitive only when iosafe is not required.",
  note="Trusted: the table classifying standard-library functions as OS primitives; dynamic calls of GoFunctionFunc values are cut at the gate (justified by the gate contract); (*File).cleanup removing its own temporary file is accepted as resource release (assumed); standard-library bodies are not explored; reflection (golib) and cgo are not modelled; functions not registered through SolemnlyDeclareCompliance/SetEnvGoFunc/NewGoFunction patterns make the registration obligation fail rather than being skipped."),
 "C20": dict(tech=EFF, ref="DESIGN.md §8 C20",
  text="Frame condition behind isolation: for every function of the library and runtime packages outside package initialisation, a structural proof over go/ssa that it performs no store to a package-level variable of the module (or through a reference loaded from one), no map update / copy / delete on one, passes none to a callee that writes through that parameter (interprocedural writes-through-parameter summaries; unknown callees assumed to write), and calls no process-global primitive (math/rand top-level functions, os.Setenv/Chdir, debug.SetGCPercent). If nothing writes shared state, runtimes confined to their goroutines cannot interfere; the Go memory model and scheduling are not modelled.",
  note="Assumed: references to package-level objects that escape into the heap through stores are not tracked further (only direct roots, loads from roots and variadic argument lists); standard-library variables (os.Stdout, time.Local) are not counted as golua state; a compiled regexp.Regexp is safe for concurrent use; cmd/, examples/ and luatesting are out of scope. Three known findings (collectgarbage, math.random, math.randomseed) are genuine shared-state defects recorded in known_findings.jsonl."),
 "C05": dict(tech=EFF, ref="DESIGN.md §8 C05",
  text="Kernel of C05: (1) counter exactness for all 64-bit values: requireCPU/RequireCPU return normally only if the saturating sum stays below a non-zero limit, otherwise the context is marked killed and a ContextTerminationError is raised with the counter unchanged; TerminateContext/KillContext raise exactly when live. (2) Non-interception: every recover() in the runtime and library packages either re-panics any value that is not nil / not of another concrete type (path-sensitive check on go/ssa), or protects a function from which no ContextTerminationError can be raised (call-graph proof), except the three declared boundaries (CallContext, Runtime.Close, Thread.Start). (3) After a function marks the current context not-live (which disables the limit checks) nothing that can run Lua code follows in it. Metering of individual loops and the 'no further Lua code runs after a kill inside pcall' clause are not decided by this check.",
  note="Trusted: call-graph resolution (static calls, module interface dispatch by method sets, function values by signature); the three boundary functions are declared, not verified; wall-clock bounds per tick are out of reach."),
 "C16": dict(tech=SMT + "; the two halves of the for instruction are extracted byte-for-byte from LuaCont.RunInThread on every run (fragments)", ref="DESIGN.md §8 C16",
  text="Step contracts of the numeric for loop, for all int64/float64 operands: forprep (the else branch of the for opcode, extracted verbatim from LuaCont.RunInThread) returns an error exactly when an operand is not a number or the step is zero, makes the loop an integer loop exactly when start and step are integers (otherwise converts the other to float), leaves the limit as is, and sets the control register to nil exactly when NOT (start <= limit) resp. NOT (limit <= start) in the exact mixed order of C02 (so NaN start/limit give an empty loop); foradv writes start+step, or nil exactly when the exact sum passes the limit or the 64-bit addition overflows - never a wrapped value. astcomp.ProcessForStat is proved to hand the same three private registers (obtained from GetFreeRegister) to both instructions and to give the body a separate register for the loop variable. The composition of the step contracts into whole-loop termination, and the compiler below ProcessForStat, are not machine-checked.",
  note="Trusted: fragment wrappers (generated; region text identical to the source, returns rewritten mechanically), spec functions (exact order, addOverflows), amd64 float-to-int conversion semantics, ghost predicate fromGetFreeRegister defined by the assumed contract of ir.GetFreeRegister, setReg treated as external with its arguments asserted, string operands excluded by precondition (ToNumberValue's string path goes through strconv)."),
 "C03": dict(tech=SMT, ref="DESIGN.md §8 C03",
  text="Stage 1 of C03, for all int64 indices and all array sizes (quantified invariants, no bound): the array part keeps its border invariant (everything from len on is nil, the element at len is not) under get/setValue/resetValue/remove/grow, each of which changes only the addressed position; array.next returns the next position holding a value (or 0) from any position of the array part, including one whose value has just been cleared; the mixed table always hands the NORMALISED key (integer-valued floats as integers) to the hash part in get/insert/reset/remove/next, never consults the hash part for an integer key inside the array part, reports from the array part a length that is a border and otherwise a length l with t[l+1] absent and t[l] present, and growing moves only non-nil values into the array part; StringValue packs strings of at most 7 bytes (bytes + length) into the scalar that string-key equality and hashing use, and nothing else. The chained hash table itself (findSlot/insertNewKeyValue/copyItems) is assumed through frame contracts; Value.Equals/Hash consistency and the metamethod wiring in SetIndex/Index are not decided.",
  note="Trusted: frame contracts of the hash part (find is a function of the hash part's state; set/reset/removeKey/grow/cleanup touch only hash-part objects), calculateArraySize result < 2^46 (a table never holds that many integer keys), classifyIndices; float bit patterns abstracted in integer mode (f64bits_int / asfloat_of); little-endian amd64 for the 8-byte read in StringValue; ground instantiation of assumed quantified facts at the function's index terms (sound: instances of hypotheses)."),
 "C06": dict(tech=SMT, ref="DESIGN.md §8 C06",
  text="Kernel of C06: (1) the memory counter, for all 64-bit values: requireMem/RequireMem leave a live context strictly below a non-zero limit or terminate it with the counter unchanged, the sum saturates instead of wrapping, ReleaseMem never goes below zero under its precondition (amount <= used), PopContext charges the child's memory to the restored parent. (2) Charge-before-allocate, generated mechanically for every allocation of a program-chosen size (make, strings.Repeat, Builder.Grow, ToLower/ToUpper, string concatenation) in string.rep/reverse/lower/upper, utf8.char and the `..` operator: the bytes charged earlier in the same call (ghost counter advanced by RequireMem's contract) cover the allocation. Same-size copies of data the context already holds ([]byte(s), string(b)) are not counted. Real Go heap growth, pairing of require/release across functions (load, coroutines, continuations) and the remaining library functions are not decided.",
  note="Trusted: ghost counter mem is advanced only by the contracts of RequireMem/requireMem; Thread.Runtime != nil assumed as a type invariant; external calls havoc the heap. Known unrepaired defects found while reading (double release on compile errors, Thread.end releasing in another context, readCode allocating before charging) are outside the functions under contract and listed in DESIGN §13."),
 "C19": dict(tech=SMT, ref="DESIGN.md §8 C19",
  text="Position arithmetic of the string/table library for all int64 arguments (integer mode with explicit wrap-around): StringNormPos implements the manual's negative-position rule; string.sub takes exactly the bytes from max(1, norm i) to min(#s, norm j) (or the empty string) and never slices outside the string; string.byte never indexes outside it; string.rep returns s for n = 1, returns the empty string only when n = 0 or s is empty with no separator (or after the separator loop), and charges what it builds; table.remove only touches positions >= pos, and a position < 1 is only accepted when it equals #list or #list+1. Results that go through strings.Builder, Index/SetIndex with metamethods, upper/lower and table.sort are not decided.",
  note="Trusted: strings.Repeat result length = len(s)*count; strings.Builder, rt.Index/SetIndex/IntLen are external (heap havocked); call-site assertions refer to source-level locals (i, j, pos, ln, sep): renaming them detaches the contract (reported as attach failure)."),
 "C17": dict(tech=SMT + "; case bodies of the pack/unpack option switches extracted byte-for-byte (fragments)", ref="DESIGN.md §8 C17",
  text="Format-table kernel of C17: every fixed-size option (b B h H l j L J T f d n) aligns to the same boundary and transfers the same number of bytes in string.pack and string.unpack (each case body of the two option switches is extracted verbatim and its align/read/write arguments are proved equal to the manual's table), and i[n], I[n], s[n] align to n on both sides; for wide integers (n > 8) the padding written around the 8-byte value is the sign extension (0xff iff the signed value is negative, 0 for unsigned) on either byte order, and the range check for n < 8 is exactly [-2^(8n-1), 2^(8n-1)-1] (int32 range for n = 4). The byte-level encoding (encoding/binary), the variable-size readers, %q, tostring/tonumber and printf agreement are not decided.",
  note="Trusted: fragment wrappers (region text identical to the source); helper methods align/read/write/fill/checkBounds are external at the call sites (their arguments are asserted, their bodies not verified here); encoding/binary."),
}

NA = {
 "C13": "observational equivalence of closures after dump/load through reflection-based encoding/binary: no per-function contract within reach of the verifier states or decides it (DESIGN §9)",
 "C18": "finalisers depend on Go's garbage collector, pointer-holding maps iterated in random order and Go finalizers on another goroutine: outside the verifier's model (DESIGN §9)",
}
ALL = ["C%02d" % i for i in range(1, 21)]

def main():
    m = json.load(open('/verif/MANIFEST.json'))
    checks = []
    for p in ALL:
        if p not in CLAIMS:
            continue
        c = CLAIMS[p]
        checks.append({
            "property_id": p,
            "quick_cmd": "./bin/govc check --property %s --tier quick" % p,
            "thorough_cmd": "./bin/govc check --property %s --tier thorough" % p,
            "evidence_file": "/verif/evidence/%s.json" % p,
            "replay_cmd_template": "./bin/govc replay {path}",
            "engine": "govc",
            "technique": c["tech"],
            "level_claimed": {"category": "proof", "text": c["text"], "design_ref": c["ref"]},
            "level_note": c["note"],
        })
    m["checks"] = checks
    m["engines"][0]["serves_properties"] = [p for p in ALL if p in CLAIMS]
    na = []
    for p in ALL:
        if p in CLAIMS:
            continue
        na.append({"property_id": p, "reason": NA.get(p, "contracts not completed yet (kernel obligations planned, DESIGN §8)")})
    m["not_applicable"] = na
    commits = subprocess.run(["git", "-C", "/repo", "log", "--format=%h %s"], capture_output=True, text=True).stdout.splitlines()
    m["hooks"]["source_commits"] = [l.split()[0] for l in commits if l.split(None, 1)[1].startswith(("verif:", "round 1: uncommitted hook"))]
    m["hooks"]["enable"] = "-tags=verif: the only guarded files are comment-only contract files */verif_contracts.go (no declarations, no behaviour); govc reads them and loads /repo with go/packages -tags=verif"
    json.dump(m, open('/verif/MANIFEST.json', 'w'), indent=1)
    print("claimed:", [c["property_id"] for c in checks])

main()
