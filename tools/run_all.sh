#!/bin/bash
# usage: run_all.sh [quick|thorough]  — every claimed property, one summary line each; exit 1 if any check fails
TIER=${1:-quick}
cd /verif
rc=0
for p in $(python3 -c "import json;print(' '.join(c['property_id'] for c in json.load(open('/verif/MANIFEST.json'))['checks']))"); do
  out=$(./bin/govc check --property $p --tier $TIER 2>/dev/null); e=$?
  echo "$out" | grep "^VIOLATION" | cut -c1-260
  echo "$out" | tail -1 | cut -c1-200
  [ $e -ne 0 ] && rc=1
done
exit $rc
