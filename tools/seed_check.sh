#!/bin/bash
# usage: seed_check.sh <dir with patch.diff> <prop> [<prop>...]
# Applies the patch to /repo, runs the quick checks of the given properties, restores /repo.
set -u
SRC=$1; shift
cd /repo
[ -z "$(git status --porcelain)" ] || { echo "/repo not clean"; exit 2; }
git apply $SRC/patch.diff 2>/dev/null || git apply --3way $SRC/patch.diff 2>/dev/null || { echo "patch does not apply"; git checkout HEAD -- . ; exit 3; }
git reset -q
cd /verif
for p in "$@"; do
  echo "== $p"; ./bin/govc check --property $p --tier quick 2>&1 | grep -v "^KNOWN" | tail -6; echo "exit=${PIPESTATUS[0]}"
done
git -C /repo checkout HEAD -- . ; git -C /repo status --porcelain
