#!/bin/bash
# usage: props_for_patch2.sh <patch> -> properties whose contracts are on (or are fragments of) a function the patch touches
for fn in $(grep -E '^@@' $1 | sed -E 's/^@@[^@]*@@ *//' | grep -oE 'func( \([^)]*\))? [A-Za-z_0-9]+' | awk '{print $NF}' | sort -u); do
  for f in $(grep -E '^\+\+\+ b/' $1 | sed 's/+++ b\///'); do
    d=$(dirname $f)
    awk -v fn="$fn" '
      /^\/\/@ (func|fragment|lemma) / { keep = ($0 ~ ("[.)( ]" fn "($| )")) || ($0 ~ (" " fn "$")) }
      keep && /^\/\/@ +prop / { for (i=3;i<=NF;i++) print $i }
    ' /repo/$d/verif_contracts*.go 2>/dev/null
  done
done | grep -oE 'C[0-9]+' | sort -u | tr '\n' ' '
