#!/bin/bash
# usage: seed_confirm2.sh <seed-src-dir (patch.diff, demo.lua|demo_test.go)> [pkgdir-for-demo_test]
# Confirms in a scratch worktree of /repo HEAD: the patch applies and builds, the pinned
# packages' tests pass with it, and the demo's output differs between the unchanged and
# the patched build (demos of this round print the behaviour rather than assert it).
set -u
export GOFLAGS=-mod=mod GOPROXY=off GOSUMDB=off GOTOOLCHAIN=local
SRC=$(readlink -f $1); PKG=${2:-}
W=$(mktemp -d /tmp/seedconfirm.XXXXXX)
git -C /repo worktree add --detach $W/wt HEAD >/dev/null 2>&1 || { echo "worktree failed"; exit 2; }
cd $W/wt
run_demo() {
  if [ -f $SRC/demo.lua ]; then
    go build -ldflags=-checklinkname=0 -o $W/golua . || { echo "$1: build failed"; return 9; }
    (cd $SRC && timeout 120 $W/golua demo.lua) > $W/demo_$1.txt 2>&1; rc=$?
  else
    cp $SRC/demo_test.go $W/wt/$PKG/zz_seed_demo_test.go
    timeout 600 go test -ldflags=-checklinkname=0 -vet=off -count=1 -run 'Seed|Demo|ZZ' ./$PKG/ 2>&1 | sed -E 's/[0-9]+\.[0-9]+s//g' > $W/demo_$1.txt; rc=${PIPESTATUS[0]}
    rm -f $W/wt/$PKG/zz_seed_demo_test.go
  fi
  echo "demo[$1] exit=$rc"
}
run_demo base
if ! git apply $SRC/patch.diff 2>$W/apply.err && ! git apply --3way $SRC/patch.diff 2>>$W/apply.err; then echo "PATCH DOES NOT APPLY"; cd /; git -C /repo worktree remove --force $W/wt; rm -rf $W; exit 3; fi
run_demo patched
if diff -q $W/demo_base.txt $W/demo_patched.txt >/dev/null; then echo "DEMO: outputs identical (NOT confirmed)"; else echo "DEMO: outputs differ (confirmed)"; diff $W/demo_base.txt $W/demo_patched.txt | head -6; fi
echo "pinned: $(go test -vet=off -count=1 ./scanner/ ./parsing/ ./ast/ ./luastrings/ ./lib/stringlib/pattern/ ./runtime/internal/luagc/ ./lib/golib/goimports/ 2>&1 | grep -c '^ok') ok of 6 with tests; failures: $(go test -vet=off -count=1 ./scanner/ ./parsing/ ./ast/ ./luastrings/ ./lib/stringlib/pattern/ ./runtime/internal/luagc/ ./lib/golib/goimports/ 2>&1 | grep -c '^FAIL\|^---')"
echo "repo lua tests (non-ok, besides the 2 known): $(go test -ldflags=-checklinkname=0 -vet=off -count=1 ./runtime/... ./lib/... ./astcomp/ ./ircomp/ ./ir/ ./code/ 2>&1 | grep -E '^\s+runtests|^--- FAIL' | grep -v 'matching.lua\|tablelib.quotas\|TestStringLib$\|TestTable$\|source line 237\|source line 155' | head -5 | tr '\n' '|')"
cd /; git -C /repo worktree remove --force $W/wt; rm -rf $W; git -C /repo worktree prune
