#!/bin/bash
# usage: seed_check_wt.sh <patch file> <prop> [<prop>...]
# Like seed_check.sh but never touches /repo: applies the patch in a scratch worktree of /repo's HEAD
# (under /tmp, removed afterwards) and points govc at it; evidence goes to a scratch dir as well.
set -u
PATCH=$(readlink -f $1); shift
W=$(mktemp -d /tmp/chkwt.XXXXXX)
git -C /repo worktree add -q --detach $W/wt HEAD || exit 2
mkdir -p $W/verif/evidence
for f in claimed known_findings.jsonl spec mutants bin properties.jsonl tools; do ln -s /verif/$f $W/verif/$f; done
cd $W/wt
git apply $PATCH 2>/dev/null || git apply --3way $PATCH 2>/dev/null || { echo "patch does not apply"; cd /; git -C /repo worktree remove --force $W/wt; rm -rf $W; exit 3; }
cd /verif
for p in "$@"; do
  echo "== $p"; ./bin/govc check --property $p --tier quick --repo $W/wt --verif $W/verif 2>&1 | grep -v "^KNOWN" | tail -6; echo "exit=${PIPESTATUS[0]}"
done
git -C /repo worktree remove --force $W/wt; rm -rf $W; git -C /repo worktree prune
