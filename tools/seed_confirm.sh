#!/bin/bash
# usage: seed_confirm.sh <seed-src-dir (with patch.diff, demo.lua|demo_test.go)> [pkgdir-for-demo_test]
# Confirms in a scratch worktree of /repo HEAD that the patch applies, builds, passes the
# test suite that passes at HEAD, and that the demo fails with the patch and passes without.
set -u
export GOFLAGS=-mod=mod GOPROXY=off GOSUMDB=off GOTOOLCHAIN=local
SRC=$1; PKG=${2:-}
W=$(mktemp -d /tmp/seedconfirm.XXXXXX)
git -C /repo worktree add --detach $W/wt HEAD >/dev/null 2>&1 || { echo "worktree failed"; exit 2; }
cd $W/wt
run_demo() { # $1 label
  if [ -f $SRC/demo.lua ]; then
    go build -ldflags=-checklinkname=0 -o $W/golua . || { echo "$1: build failed"; return 9; }
    (cd $SRC && timeout 120 $W/golua demo.lua) > $W/demo_$1.txt 2>&1; rc=$?
  else
    cp $SRC/demo_test.go $W/wt/$PKG/zz_seed_demo_test.go
    timeout 300 go test -ldflags=-checklinkname=0 -vet=off -count=1 -run 'Seed|Demo|ZZ' ./$PKG/ > $W/demo_$1.txt 2>&1; rc=$?
    rm -f $W/wt/$PKG/zz_seed_demo_test.go
  fi
  echo "demo[$1] exit=$rc: $(tail -3 $W/demo_$1.txt | tr '\n' '|')"
  return $rc
}
run_demo base; base_rc=$?
if ! git apply --3way $SRC/patch.diff 2>$W/apply.err && ! git apply $SRC/patch.diff 2>>$W/apply.err; then echo "PATCH DOES NOT APPLY: $(cat $W/apply.err)"; cd /; git -C /repo worktree remove --force $W/wt; rm -rf $W; exit 3; fi
go build ./... 2>&1 | grep -v "^#\|invalid reference\|link:" | head -5
run_demo patched; pat_rc=$?
go test -ldflags=-checklinkname=0 -vet=off -count=1 ./... 2>&1 | grep -v "^ok\|no test files" | grep -v "tablelib" | head -20 > $W/tests.txt
echo "tests (non-ok lines, tablelib quotas failure is pre-existing):"; cat $W/tests.txt
echo "RESULT base_rc=$base_rc patched_rc=$pat_rc"
cd /; git -C /repo worktree remove --force $W/wt; rm -rf $W
