#!/bin/bash
# usage: seed_keep.sh <src dir> <seed id> <property> "<needs>" "<ran>" "<detected_by>"
set -e
SRC=$1; ID=$2; PROP=$3; NEEDS=$4; RAN=$5; DET=$6
D=/verif/seeded/$ID; mkdir -p $D
cp $SRC/patch.diff $D/; for f in demo.lua demo_test.go README.md; do [ -f $SRC/$f ] && cp $SRC/$f $D/; done
python3 - "$D" "$ID" "$PROP" "$NEEDS" "$RAN" "$DET" <<'PY'
import json,sys
d,id,prop,needs,ran,det=sys.argv[1:7]
json.dump({"id":id,"property":prop,"breaks":prop,"needs_to_manifest":needs,"what_i_ran":ran,"detected_by":det,"source":"independent sub-agent given only the property text and a scratch worktree"},open(d+"/meta.json","w"),indent=1)
PY
echo kept $D
