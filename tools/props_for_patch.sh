#!/bin/bash
# usage: props_for_patch.sh <patch>  -> properties that have contracts in the packages the patch touches
for f in $(grep -E '^\+\+\+ b/' $1 | sed 's/+++ b\///'); do
  d=$(dirname $f)
  grep -h -o -E '^//@ +prop +C[0-9]+( *, *C[0-9]+)*' /repo/$d/verif_contracts*.go 2>/dev/null | grep -o -E 'C[0-9]+'
done | sort -u | tr '\n' ' '
