; Trusted specification functions, bit-vector / floating-point mode.
; U = (_ BitVec 64), F = Float64.  Transcribed from the Lua 5.4 manual
; (§3.4.1 arithmetic, §3.4.2 bitwise, §3.4.3 conversions, §3.4.4 relational)
; and from golua's quotas.md (0 = no limit).
; two63 and goF2I are defined in the engine prelude.

; ---- limits: 0 means infinity -------------------------------------------------
(define-fun spec.limLe ((a (_ BitVec 64)) (b (_ BitVec 64))) Bool
  (or (= b #x0000000000000000) (and (not (= a #x0000000000000000)) (bvule a b))))
(define-fun spec.atLimit ((v (_ BitVec 64)) (l (_ BitVec 64))) Bool
  (and (not (= l #x0000000000000000)) (bvuge v l)))
(define-fun spec.addNoWrap ((a (_ BitVec 64)) (b (_ BitVec 64))) Bool (bvuge (bvadd a b) a))
(define-fun spec.satAdd ((a (_ BitVec 64)) (b (_ BitVec 64))) (_ BitVec 64)
  (ite (bvult (bvadd a b) a) #xffffffffffffffff (bvadd a b)))
; signed 64-bit addition leaves the int64 range (decided in 65 bits)
(define-fun spec.addOverflows ((a (_ BitVec 64)) (b (_ BitVec 64))) Bool
  (let ((s (bvadd ((_ sign_extend 1) a) ((_ sign_extend 1) b))))
    (not (= ((_ extract 64 64) s) ((_ extract 63 63) s)))))
(define-fun spec.mulNoWrap ((a (_ BitVec 64)) (b (_ BitVec 64))) Bool
  (= ((_ extract 127 64) (bvmul ((_ zero_extend 64) a) ((_ zero_extend 64) b))) #x0000000000000000))

; ---- exact order between an int64 n and a float64 f ----------------------------
; n < f  as real numbers: false for NaN; true if f >= 2^63; false if f < -2^63;
; otherwise n < ceil(f) (ceil(f) is an integer in int64 range, to_sbv RTP is exact).
(define-fun spec.ltIntFloat ((n (_ BitVec 64)) (f Float64)) Bool
  (and (not (fp.isNaN f))
       (or (fp.geq f two63)
           (and (fp.geq f (fp.neg two63)) (bvslt n ((_ fp.to_sbv 64) RTP f))))))
; n <= f : n <= floor(f)
(define-fun spec.leIntFloat ((n (_ BitVec 64)) (f Float64)) Bool
  (and (not (fp.isNaN f))
       (or (fp.geq f two63)
           (and (fp.geq f (fp.neg two63)) (bvsle n ((_ fp.to_sbv 64) RTN f))))))
(define-fun spec.ltFloatInt ((f Float64) (n (_ BitVec 64))) Bool
  (and (not (fp.isNaN f)) (not (spec.leIntFloat n f))))
(define-fun spec.leFloatInt ((f Float64) (n (_ BitVec 64))) Bool
  (and (not (fp.isNaN f)) (not (spec.ltIntFloat n f))))
(define-fun spec.eqIntFloat ((n (_ BitVec 64)) (f Float64)) Bool
  (and (spec.leIntFloat n f) (spec.leFloatInt f n)))

; f has an exact int64 value
(define-fun spec.floatIsInt ((f Float64)) Bool
  (and (not (fp.isNaN f)) (not (fp.isInfinite f)) (fp.lt f two63) (fp.geq f (fp.neg two63))
       (fp.eq (fp.roundToIntegral RTZ f) f)))
(define-fun spec.floatToInt ((f Float64)) (_ BitVec 64) ((_ fp.to_sbv 64) RTZ f))

; ---- integer floor division and modulo --------------------------------------
; Defined (against SMT `div`) in int.smt2, where runtime.floordivInt/modInt are
; verified; bit-vector-mode callers only need them as functions of the operands.
(declare-fun spec.floorDiv ((_ BitVec 64) (_ BitVec 64)) (_ BitVec 64))
(declare-fun spec.floorMod ((_ BitVec 64) (_ BitVec 64)) (_ BitVec 64))

; ---- Lua shifts: logical, |count| >= 64 gives 0, negative count shifts the other way ----
(define-fun spec.luaShl ((x (_ BitVec 64)) (n (_ BitVec 64))) (_ BitVec 64)
  (ite (bvsge n #x0000000000000040) #x0000000000000000
  (ite (bvsge n #x0000000000000000) (bvshl x n)
  (ite (bvsle n #xffffffffffffffc0) #x0000000000000000
       (bvlshr x (bvneg n))))))
(define-fun spec.luaShr ((x (_ BitVec 64)) (n (_ BitVec 64))) (_ BitVec 64)
  (ite (bvsge n #x0000000000000040) #x0000000000000000
  (ite (bvsge n #x0000000000000000) (bvlshr x n)
  (ite (bvsle n #xffffffffffffffc0) #x0000000000000000
       (bvshl x (bvneg n))))))

; ---- float floor division / modulo -------------------------------------------
(define-fun spec.floorDivFloat ((x Float64) (y Float64)) Float64 (fp.roundToIntegral RTN (fp.div RNE x y)))

; ---- ghost provenance of IR registers (defined by the contract of ir.(*CodeBuilder).GetFreeRegister) ----
(declare-fun spec.fromGetFreeRegister ((_ BitVec 64)) Bool)

; ---- C remainder (quotient rounded towards zero), as math.fmod on integers ----
(define-fun spec.truncRem ((a (_ BitVec 64)) (b (_ BitVec 64))) (_ BitVec 64) (bvsrem a b))
