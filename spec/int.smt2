; Trusted specification functions, integer mode (SMT Int; machine results wrapped explicitly).
(define-fun spec.wrap64 ((x Int)) Int (- (mod (+ x 9223372036854775808) 18446744073709551616) 9223372036854775808))
; floor division on mathematical integers: SMT div is floor for positive divisors
(define-fun spec.floorDivMath ((x Int) (y Int)) Int (ite (> y 0) (div x y) (div (- x) (- y))))
(define-fun spec.floorDiv ((x Int) (y Int)) Int (spec.wrap64 (spec.floorDivMath x y)))
(define-fun spec.floorMod ((x Int) (y Int)) Int (- x (* y (spec.floorDivMath x y))))
(define-fun spec.min ((a Int) (b Int)) Int (ite (< a b) a b))
(define-fun spec.max ((a Int) (b Int)) Int (ite (< a b) b a))
