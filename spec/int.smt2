; Trusted specification functions, integer mode (SMT Int; machine results wrapped explicitly).
(define-fun spec.wrap64 ((x Int)) Int (- (mod (+ x 9223372036854775808) 18446744073709551616) 9223372036854775808))
; floor division on mathematical integers: SMT div is floor for positive divisors
(define-fun spec.floorDivMath ((x Int) (y Int)) Int (ite (> y 0) (div x y) (div (- x) (- y))))
(define-fun spec.floorDiv ((x Int) (y Int)) Int (spec.wrap64 (spec.floorDivMath x y)))
(define-fun spec.floorMod ((x Int) (y Int)) Int (- x (* y (spec.floorDivMath x y))))
(define-fun spec.min ((a Int) (b Int)) Int (ite (< a b) a b))
(define-fun spec.max ((a Int) (b Int)) Int (ite (< a b) b a))
; float <-> integer conversions (same names as in bv.smt2; integer results as mathematical integers)
(define-fun spec.two63 () Float64 ((_ to_fp 11 53) RNE 9223372036854775808.0))
(define-fun spec.floatIsInt ((f Float64)) Bool
  (and (not (fp.isNaN f)) (not (fp.isInfinite f)) (fp.lt f spec.two63) (fp.geq f (fp.neg spec.two63))
       (fp.eq (fp.roundToIntegral RTZ f) f)))
(define-fun spec.floatToInt ((f Float64)) Int
  (let ((b ((_ fp.to_sbv 64) RTZ f)))
    (ite (bvslt b #x0000000000000000) (- (bv2nat b) 18446744073709551616) (bv2nat b))))
; limits (uint64 values as integers in [0, 2^64)): 0 means infinity
(define-fun spec.limLe ((a Int) (b Int)) Bool (or (= b 0) (and (not (= a 0)) (<= a b))))
(define-fun spec.atLimit ((v Int) (l Int)) Bool (and (not (= l 0)) (>= v l)))
(define-fun spec.satAdd ((a Int) (b Int)) Int (ite (> (+ a b) 18446744073709551615) 18446744073709551615 (+ a b)))

; ghost provenance of IR registers (defined by the contract of CodeBuilder.GetFreeRegister)
(declare-fun spec.fromGetFreeRegister (Int) Bool)
